/-! Small definitions shared by all model modules. Import-free. -/
namespace FatVerif

/-- `fatfs::Error` plus the two model-only outcomes `panic` and `hang`.
    `io k` carries the index of the failed device call (the "storage's error"). -/
inductive Err where
  | io (k : Nat)
  | eof            -- UnexpectedEof
  | writeZero
  | invalidInput
  | notFound
  | alreadyExists
  | dirNotEmpty
  | corrupted
  | noSpace
  | nameLen
  | nameChar
  | panic
  | hang
  deriving DecidableEq, Repr, Inhabited

/-- numeric code used on the wire (`fatfs::verif::error_code`); 100 = panic, 101 = hang -/
def Err.code : Err → Nat
  | .io _ => 1 | .eof => 2 | .writeZero => 3 | .invalidInput => 4 | .notFound => 5
  | .alreadyExists => 6 | .dirNotEmpty => 7 | .corrupted => 8 | .noSpace => 9
  | .nameLen => 10 | .nameChar => 11 | .panic => 100 | .hang => 101

inductive FatType where
  | fat12 | fat16 | fat32
  deriving DecidableEq, Repr, Inhabited

def FatType.bits : FatType → Nat
  | .fat12 => 12 | .fat16 => 16 | .fat32 => 32

def FatType.ofBits (n : Nat) : FatType :=
  if n = 12 then .fat12 else if n = 16 then .fat16 else .fat32

/-- `FatType::from_clusters` -/
def FatType.fromClusters (total : Nat) : FatType :=
  if total < 4085 then .fat12 else if total < 65525 then .fat16 else .fat32

/-- decoded FAT entry (`table.rs` `FatValue`) -/
inductive FatValue where
  | free | data (n : Nat) | bad | eoc
  deriving DecidableEq, Repr, Inhabited

/-- `lfn_checksum` (dir.rs): rotate right by one and add, over the 11 raw short-name bytes (wrapping u8). -/
def lfnChecksumStep (chk b : Nat) : Nat :=
  ((chk * 128) % 256 + chk / 2 + b) % 256

def lfnChecksum (sfn : List Nat) : Nat :=
  sfn.foldl lfnChecksumStep 0

/-- little-endian helpers on byte lists (`Nat < 256` each) -/
def le16 (lo hi : Nat) : Nat := lo + 256 * hi
def le32 (b0 b1 b2 b3 : Nat) : Nat := b0 + 256 * b1 + 65536 * b2 + 16777216 * b3
def bytesLe16 (v : Nat) : List Nat := [v % 256, v / 256 % 256]
def bytesLe32 (v : Nat) : List Nat := [v % 256, v / 256 % 256, v / 65536 % 256, v / 16777216 % 256]

end FatVerif
