import FatVerif.Model.Basic
/-!
# Long-file-name slots: generation and directory slot-list decoding (dir.rs / dir_entry.rs)

Pure model of
* the 32-byte LFN slot layout (`DirLfnEntryData::serialize` / `DirEntryData::deserialize`),
* `LfnEntriesGenerator` (`lfnGenerate`),
* the two `cfg` variants of `LfnBuffer` (`alloc = true`: `Vec<u16>`; `alloc = false`: `[u16; 260]` + `len`),
* `LongNameBuilder` (`process`, `validate_chksum`, `into_buf`, `clear`, `truncate`),
* the loop of `DirIter::read_dir_entry` over a list of 32-byte slots (`readDirEntries`),
* the accessors of `DirEntry` that depend only on the slot (`ShortName::new`, `lowercase_name`, date/time decode),
* `String::from_utf16_lossy` (`utf16Lossy`) and UTF-16 encoding (`encodeUtf16`).

Machine integers are `Nat`; a slot is a `List Nat` (32 bytes, each `< 256`); bytes outside a short list read as 0
(`getD`), so every function is total.  Bit operations are written arithmetically:
`x & 0x1F = x % 32`, `x & 0x40 ≠ 0 ↔ x / 64 % 2 = 1`, `x & 0x0F = 0x0F ↔ x % 16 = 15`, `x & 0x08 ≠ 0 ↔ x / 8 % 2 = 1`,
`from_bits_truncate x = x % 64`.

Helper names live in `FatVerif.Lfn`; the API named in ARCH/DESIGN lives in `FatVerif`.
-/
namespace FatVerif

namespace Lfn

/-- `LFN_PART_LEN` -/
def partLen : Nat := 13
/-- `MAX_LONG_DIR_ENTRIES = (255 + 13 - 1) / 13` -/
def maxEntries : Nat := 20
/-- `LONG_NAME_BUFFER_LEN = 20 * 13` -/
def bufCap : Nat := 260

/-- byte `i` of a slot (0 beyond the end) -/
def byte (s : List Nat) (i : Nat) : Nat := s.getD i 0

/-- little-endian u16 at byte offset `off` -/
def unitAt (s : List Nat) (off : Nat) : Nat := le16 (byte s off) (byte s (off + 1))

/-- byte offsets of the 13 name units in an LFN slot: name_0 (5), name_1 (6), name_2 (2) -/
def unitOffsets : List Nat := [1, 3, 5, 7, 9, 14, 16, 18, 20, 22, 24, 28, 30]

def lo (u : Nat) : Nat := u % 256
def hi (u : Nat) : Nat := u / 256 % 256
def un (u : List Nat) (i : Nat) : Nat := u.getD i 0

end Lfn

open Lfn

/-! ## LFN slot byte layout -/

/-- `DirLfnEntryData::new(order, chk)` + `copy_name_from_slice(units13)` + `serialize`:
    order, 5 units LE, attr 0x0F, type 0, checksum, 6 units, reserved 0 0, 2 units. -/
def lfnSlotBytes (order chk : Nat) (u : List Nat) : List Nat :=
  [order,
   lo (un u 0), hi (un u 0), lo (un u 1), hi (un u 1), lo (un u 2), hi (un u 2),
   lo (un u 3), hi (un u 3), lo (un u 4), hi (un u 4),
   0x0F, 0, chk,
   lo (un u 5), hi (un u 5), lo (un u 6), hi (un u 6), lo (un u 7), hi (un u 7),
   lo (un u 8), hi (un u 8), lo (un u 9), hi (un u 9), lo (un u 10), hi (un u 10),
   0, 0,
   lo (un u 11), hi (un u 11), lo (un u 12), hi (un u 12)]

namespace Lfn

/-- first byte: order of an LFN slot / first name byte of a short slot -/
def order (s : List Nat) : Nat := byte s 0
/-- `FileAttributes::from_bits_truncate(byte 11)` (defined bits 0x3F) -/
def attrs (s : List Nat) : Nat := byte s 11 % 64
/-- checksum field of an LFN slot -/
def chk (s : List Nat) : Nat := byte s 13
/-- the 13 name units of an LFN slot (`copy_name_to_slice`) -/
def units (s : List Nat) : List Nat := unitOffsets.map (unitAt s)

/-- `attrs & LFN == LFN` -/
def isLfn (s : List Nat) : Bool := attrs s % 16 == 15
/-- `is_end`: first byte 0 (both variants of `DirEntryData`) -/
def isEnd (s : List Nat) : Bool := byte s 0 == 0
/-- `is_deleted`: first byte 0xE5 (both variants) -/
def isDeleted (s : List Nat) : Bool := byte s 0 == 0xE5
/-- `DirFileEntryData::is_volume` -/
def isVolume (s : List Nat) : Bool := attrs s / 8 % 2 == 1
/-- `DirFileEntryData::is_dir` -/
def isDir (s : List Nat) : Bool := attrs s / 16 % 2 == 1

/-- raw short name (first 11 bytes) -/
def sfnName (s : List Nat) : List Nat := (List.range 11).map (byte s)

end Lfn

/-- decoder of the LFN slot layout: (order, checksum, 13 units) -/
def lfnSlotDecode (s : List Nat) : Nat × Nat × List Nat := (Lfn.order s, Lfn.chk s, Lfn.units s)

/-- Result of `DirEntryData::deserialize` on one slot (`none` = end of stream, which deserialize maps to an all-zero
    short entry, i.e. an end marker). -/
inductive SlotClass where
  | endMark | deleted | lfn | volume | file
  deriving DecidableEq, Repr

/-- classification in the order `read_dir_entry` tests it: `is_end`, `is_deleted`, then `Lfn` / `File`
    (`volume` = `File` with the VOLUME_ID attribute) -/
def slotClass (s : List Nat) : SlotClass :=
  if Lfn.isEnd s then .endMark
  else if Lfn.isDeleted s then .deleted
  else if Lfn.isLfn s then .lfn
  else if Lfn.isVolume s then .volume
  else .file

/-! ## `LfnEntriesGenerator` -/

namespace Lfn

/-- number of slots for `n` units -/
def numParts (n : Nat) : Nat := (n + 12) / 13

/-- chunk `j` (0-based) of `name.chunks(13)`, padded as the generator does:
    `[0xFFFF; 13]`, copy the part, one `0` terminator iff the part is shorter than 13 -/
def part (name : List Nat) (j : Nat) : List Nat :=
  let p := (name.drop (13 * j)).take 13
  if p.length < 13 then p ++ 0 :: List.replicate (12 - p.length) 0xFFFF else p

/-- `order |= 0x40` on a u8 -/
def orLast (o : Nat) : Nat := if o / 64 % 2 = 1 then o else o + 64

/-- `lfn_index as u8`, with `LFN_ENTRY_LAST_FLAG` on the first emitted slot (`k = num`) -/
def orderByte (k num : Nat) : Nat := if k = num then orLast (k % 256) else k % 256

/-- slots for chunks `k-1, k-2, …, 0` in that (on-disk) order -/
def genFrom (name : List Nat) (chk num : Nat) : Nat → List (List Nat)
  | 0 => []
  | k + 1 => lfnSlotBytes (orderByte (k + 1) num) chk (part name k) :: genFrom name chk num k

end Lfn

/-- `LfnEntriesGenerator::new(units, chk)` collected and serialised: slots in on-disk order. -/
def lfnGenerate (name : List Nat) (chk : Nat) : List (List Nat) :=
  Lfn.genFrom name chk (Lfn.numParts name.length) (Lfn.numParts name.length)

/-! ## `LfnBuffer` (two variants) -/

/-- `alloc = true`: `units` is the `Vec<u16>` and `len = units.length` (kept in sync);
    `alloc = false`: `units` is the 260-unit array and `len` the `len` field. -/
structure LfnBuf where
  units : List Nat
  len : Nat
  deriving DecidableEq, Repr

namespace Lfn

/-- `Vec::resize(n, 0)` -/
def resize (l : List Nat) (n : Nat) : List Nat := l.take n ++ List.replicate (n - l.length) 0

/-- the units before the first `0x0000` (all of them if there is none):
    `units[..units.iter().position(|c| *c == 0).unwrap_or(units.len())]` -/
def cutAtNul : List Nat → List Nat
  | [] => []
  | x :: xs => if x = 0 then [] else x :: cutAtNul xs

/-- the `new_len` computed by `LongNameBuilder::truncate` -/
def cutLen (l : List Nat) : Nat := (cutAtNul l).length

/-- `buf[pos..pos+13].copy_from(us)` for a 13-unit `us`, unchecked -/
def setSlice (buf : List Nat) (pos : Nat) (us : List Nat) : List Nat :=
  buf.take pos ++ us ++ buf.drop (pos + 13)

/-- the same with the slice bounds check of `&mut buf[pos..pos + 13]` (`none` = panic) -/
def setSlice? (buf : List Nat) (pos : Nat) (us : List Nat) : Option (List Nat) :=
  if pos + 13 ≤ buf.length then some (setSlice buf pos us) else none

end Lfn

open Lfn

def LfnBuf.new (alloc : Bool) : LfnBuf :=
  if alloc then ⟨[], 0⟩ else ⟨List.replicate bufCap 0, 0⟩

/-- `clear`: `Vec::clear` / zero the whole array and the length -/
def LfnBuf.clear (alloc : Bool) (_b : LfnBuf) : LfnBuf := LfnBuf.new alloc

/-- `set_len`: `Vec::resize(len, 0)` / only the `len` field changes -/
def LfnBuf.setLen (alloc : Bool) (b : LfnBuf) (n : Nat) : LfnBuf :=
  if alloc then ⟨resize b.units n, n⟩ else ⟨b.units, n⟩

/-- `as_ucs2_units`: the vector / `&ucs2_units[..len]` -/
def LfnBuf.asUnits (b : LfnBuf) : List Nat := b.units.take b.len

/-- `as_ucs2_units` with the bounds check of `[..len]` (`none` = panic) -/
def LfnBuf.asUnits? (b : LfnBuf) : Option (List Nat) :=
  if b.len ≤ b.units.length then some (b.units.take b.len) else none

/-- `from_ucs2_units`: `collect()` / indexed stores into the 260-unit array (`none` = index panic) -/
def LfnBuf.fromUnits? (alloc : Bool) (us : List Nat) : Option LfnBuf :=
  if alloc then some ⟨us, us.length⟩
  else if us.length ≤ bufCap then some ⟨us ++ List.replicate (bufCap - us.length) 0, us.length⟩
  else none

/-- what `verif_dir::lfn_generate` does: `from_ucs2_units` → `as_ucs2_units` → generator -/
def lfnGenerateVia (alloc : Bool) (name : List Nat) (chk : Nat) : Option (List (List Nat)) :=
  match LfnBuf.fromUnits? alloc name with
  | none => none
  | some b => match b.asUnits? with
    | none => none
    | some us => some (lfnGenerate us chk)

/-! ## `LongNameBuilder` -/

structure LongNameBuilder where
  buf : LfnBuf
  chksum : Nat
  index : Nat
  deriving DecidableEq, Repr

namespace LongNameBuilder

def new (alloc : Bool) : LongNameBuilder := ⟨LfnBuf.new alloc, 0, 0⟩

def clear (alloc : Bool) (b : LongNameBuilder) : LongNameBuilder :=
  { b with buf := b.buf.clear alloc, index := 0 }

/-- `truncate`: the name ends at the FIRST NUL unit of the LIVE units `self.buf.as_ucs2_units()` (padding follows it)
    or fills all entries completely; trailing `0xFFFF` units are part of the name (commit 712f847; before it every
    trailing `0x0000`/`0xFFFF` unit was stripped: F12; before 11043bc the fixed variant scanned the whole array: F18) -/
def truncate (alloc : Bool) (b : LongNameBuilder) : LongNameBuilder :=
  { b with buf := b.buf.setLen alloc (cutLen b.buf.asUnits) }

/-- `truncate` with the bounds check of `as_ucs2_units()` (`none` = panic) -/
def truncate? (alloc : Bool) (b : LongNameBuilder) : Option LongNameBuilder :=
  match b.buf.asUnits? with
  | none => none
  | some u => some { b with buf := b.buf.setLen alloc (cutLen u) }

/-- `MAX_LONG_NAME_LEN` -/
def maxNameLen : Nat := 255

/-- `into_buf`: complete run → truncate, and (commit 6c58f9d) clear if more than 255 units remain;
    unfinished run → clear -/
def intoBuf (alloc : Bool) (b : LongNameBuilder) : LfnBuf :=
  if b.index = 1 then
    (if (b.truncate alloc).buf.len > maxNameLen then ((b.truncate alloc).clear alloc).buf else (b.truncate alloc).buf)
  else if b.index ≠ 0 then (b.clear alloc).buf
  else b.buf

def intoBuf? (alloc : Bool) (b : LongNameBuilder) : Option LfnBuf :=
  if b.index = 1 then
    match b.truncate? alloc with
    | none => none
    | some t => some (if t.buf.len > maxNameLen then (t.clear alloc).buf else t.buf)
  else if b.index ≠ 0 then some (b.clear alloc).buf
  else some b.buf

def validateChksum (alloc : Bool) (b : LongNameBuilder) (sfn11 : List Nat) : LongNameBuilder :=
  if b.index = 0 then b
  else if lfnChecksum sfn11 ≠ b.chksum then b.clear alloc
  else b

/-- `process` up to (excluding) the final `copy_name_to_slice`: the new state and, unless the function returned
    early, the position `pos = 13 * (index - 1)` of the slice to overwrite -/
def pre (alloc : Bool) (b : LongNameBuilder) (ord ck : Nat) : LongNameBuilder × Option Nat :=
  if ord % 32 = 0 ∨ ord % 32 > 20 then (b.clear alloc, none)
  else if ord / 64 % 2 = 1 then
    ({ buf := b.buf.setLen alloc (ord % 32 * 13), chksum := ck, index := ord % 32 }, some (13 * (ord % 32 - 1)))
  else if b.index = 0 ∨ ord % 32 ≠ b.index - 1 ∨ ck ≠ b.chksum then (b.clear alloc, none)
  else ({ b with index := b.index - 1 }, some (13 * (ord % 32 - 1)))

/-- `process` -/
def process (alloc : Bool) (b : LongNameBuilder) (s : List Nat) : LongNameBuilder :=
  match pre alloc b (Lfn.order s) (Lfn.chk s) with
  | (b', none) => b'
  | (b', some pos) => { b' with buf := { b'.buf with units := setSlice b'.buf.units pos (Lfn.units s) } }

/-- `process` with the bounds check of `self.buf.ucs2_units[pos..pos + 13]` (`none` = panic) -/
def process? (alloc : Bool) (b : LongNameBuilder) (s : List Nat) : Option LongNameBuilder :=
  match pre alloc b (Lfn.order s) (Lfn.chk s) with
  | (b', none) => some b'
  | (b', some pos) =>
    match setSlice? b'.buf.units pos (Lfn.units s) with
    | none => none
    | some u => some { b' with buf := { b'.buf with units := u } }

/-- `validate_chksum(sfn)` then `into_buf()` then `as_ucs2_units()`: the long name attached to the entry -/
def finish (alloc : Bool) (b : LongNameBuilder) (sfn11 : List Nat) : List Nat :=
  ((b.validateChksum alloc sfn11).intoBuf alloc).asUnits

def finish? (alloc : Bool) (b : LongNameBuilder) (sfn11 : List Nat) : Option (List Nat) :=
  match (b.validateChksum alloc sfn11).intoBuf? alloc with
  | none => none
  | some buf => buf.asUnits?

end LongNameBuilder

/-! ## `DirIter` over a slot list -/

/-- one `DirEntry`: the short slot, `lfn_utf16.as_ucs2_units()`, `offset_range / 32` -/
structure LfnEntry where
  sfn : List Nat
  units : List Nat
  beginIdx : Nat
  endIdx : Nat
  deriving DecidableEq, Repr

namespace Lfn

/-- The loop of `read_dir_entry`, iterated (`DirIter::next` until `None`).
    `idx` = index of the head slot, `beginIdx` = `begin_offset / 32`, `b` = `lfn_builder`.
    End of the list = `UnexpectedEof` in `deserialize` = an all-zero short entry = end marker. -/
def readLoop (alloc skipVolume : Bool) : List (List Nat) → Nat → Nat → LongNameBuilder → List LfnEntry
  | [], _, _, _ => []
  | s :: rest, idx, beginIdx, b =>
    match slotClass s with
    | .endMark => []
    | .deleted => readLoop alloc skipVolume rest (idx + 1) (idx + 1) (b.clear alloc)
    | .lfn => readLoop alloc skipVolume rest (idx + 1) beginIdx (b.process alloc s)
    | .volume =>
      if skipVolume then readLoop alloc skipVolume rest (idx + 1) (idx + 1) (b.clear alloc)
      else ⟨s, b.finish alloc (sfnName s), beginIdx, idx + 1⟩ ::
             readLoop alloc skipVolume rest (idx + 1) (idx + 1) (LongNameBuilder.new alloc)
    | .file =>
      ⟨s, b.finish alloc (sfnName s), beginIdx, idx + 1⟩ ::
        readLoop alloc skipVolume rest (idx + 1) (idx + 1) (LongNameBuilder.new alloc)

/-- the same loop with every slice bounds check explicit (`none` = a panic site fired) -/
def readLoop? (alloc skipVolume : Bool) :
    List (List Nat) → Nat → Nat → LongNameBuilder → Option (List LfnEntry)
  | [], _, _, _ => some []
  | s :: rest, idx, beginIdx, b =>
    match slotClass s with
    | .endMark => some []
    | .deleted => readLoop? alloc skipVolume rest (idx + 1) (idx + 1) (b.clear alloc)
    | .lfn =>
      match b.process? alloc s with
      | none => none
      | some b' => readLoop? alloc skipVolume rest (idx + 1) beginIdx b'
    | .volume =>
      if skipVolume then readLoop? alloc skipVolume rest (idx + 1) (idx + 1) (b.clear alloc)
      else
        match b.finish? alloc (sfnName s),
              readLoop? alloc skipVolume rest (idx + 1) (idx + 1) (LongNameBuilder.new alloc) with
        | some u, some es => some (⟨s, u, beginIdx, idx + 1⟩ :: es)
        | _, _ => none
    | .file =>
      match b.finish? alloc (sfnName s),
            readLoop? alloc skipVolume rest (idx + 1) (idx + 1) (LongNameBuilder.new alloc) with
      | some u, some es => some (⟨s, u, beginIdx, idx + 1⟩ :: es)
      | _, _ => none

/-- No restart inside a block of long-name slots: no `0x40`-flagged long-name slot with a valid ordinal directly follows
    another (non-deleted) long-name slot.  `prevLfn` = the previous slot was a long-name slot.
    Holds for every directory the library writes.  Before commit 11043bc the two buffer variants agreed only on this
    domain (F18); kept as a coverage label of the correspondence suite. -/
def cleanStarts : Bool → List (List Nat) → Bool
  | _, [] => true
  | prevLfn, s :: rest =>
    match slotClass s with
    | .endMark => true
    | .lfn =>
      !(prevLfn && order s / 64 % 2 == 1 && decide (1 ≤ order s % 32) && decide (order s % 32 ≤ 20)) &&
        cleanStarts true rest
    | _ => cleanStarts false rest

end Lfn

/-- all entries `Dir::iter()` (`skipVolume = true`) resp. `find_volume_entry`'s iterator (`false`) yields on a
    directory whose slots are `slots` -/
def readDirEntries (alloc skipVolume : Bool) (slots : List (List Nat)) : List LfnEntry :=
  Lfn.readLoop alloc skipVolume slots 0 0 (LongNameBuilder.new alloc)

/-- the same with explicit panic sites (`none` = panic) -/
def readDirEntries? (alloc skipVolume : Bool) (slots : List (List Nat)) : Option (List LfnEntry) :=
  Lfn.readLoop? alloc skipVolume slots 0 0 (LongNameBuilder.new alloc)

/-- `DirEntry::long_file_name_as_ucs2_units` -/
def LfnEntry.longName (e : LfnEntry) : Option (List Nat) :=
  if e.units.length > 0 then some e.units else none

/-- `FileSystem::read_volume_label_from_root_dir_as_bytes` on a root directory with these slots -/
def readVolumeLabel (alloc : Bool) (slots : List (List Nat)) : Option (List Nat) :=
  ((readDirEntries alloc false slots).find? fun e => Lfn.isVolume e.sfn).map fun e => Lfn.sfnName e.sfn

/-! ## Slot-only accessors of `DirEntry` -/

namespace Lfn

/-- `rposition(|x| *x != b' ').map_or(0, |p| p + 1)` -/
def trimLen : List Nat → Nat
  | [] => 0
  | x :: xs => if trimLen xs = 0 ∧ x = 32 then 0 else trimLen xs + 1

/-- `ShortName::new(raw).as_bytes()` -/
def shortNameBytes (raw : List Nat) : List Nat :=
  let base := raw.take 8
  let ext := (raw.drop 8).take 3
  let nameLen := trimLen base
  let extLen := trimLen ext
  let full := if extLen > 0 then base.take nameLen ++ 46 :: ext.take extLen else base.take nameLen
  match full with
  | 5 :: t => 0xE5 :: t
  | l => l

def asciiLower (b : Nat) : Nat := if 65 ≤ b ∧ b ≤ 90 then b + 32 else b

/-- `DirFileEntryData::lowercase_name().as_bytes()` (reserved byte 12: bit 3 base name, bit 4 extension) -/
def lowercaseNameBytes (s : List Nat) : List Nat :=
  let raw := sfnName s
  let base := if byte s 12 / 8 % 2 = 1 then (raw.take 8).map asciiLower else raw.take 8
  let ext := if byte s 12 / 16 % 2 = 1 then (raw.drop 8).map asciiLower else raw.drop 8
  shortNameBytes (base ++ ext)

/-- `LossyOemCpConverter::decode` as a scalar value -/
def oemDecode (b : Nat) : Nat := if b ≤ 0x7F then b else 0xFFFD

/-- `Date::decode`: (year, month, day) -/
def dateDecode (d : Nat) : Nat × Nat × Nat := (d / 512 + 1980, d / 32 % 16, d % 32)

/-- `Time::decode`: (hour, min, sec, millis) -/
def timeDecode (t hiRes : Nat) : Nat × Nat × Nat × Nat :=
  (t / 2048, t / 32 % 64, t % 32 * 2 + hiRes / 100, hiRes % 100 * 10)

def fileSize (s : List Nat) : Nat := le32 (byte s 28) (byte s 29) (byte s 30) (byte s 31)

end Lfn

/-! ## UTF-16 -/

namespace Lfn

def isHighSur (u : Nat) : Bool := 0xD800 ≤ u && u ≤ 0xDBFF
def isLowSur (u : Nat) : Bool := 0xDC00 ≤ u && u ≤ 0xDFFF

/-- `char::decode_utf16(..).map(|r| r.unwrap_or(REPLACEMENT_CHARACTER))` with a pending leading surrogate -/
def utf16Go : Option Nat → List Nat → List Nat
  | none, [] => []
  | some _, [] => [0xFFFD]
  | none, u :: rest =>
    if isHighSur u then utf16Go (some u) rest
    else if isLowSur u then 0xFFFD :: utf16Go none rest
    else u :: utf16Go none rest
  | some h, u :: rest =>
    if isLowSur u then (0x10000 + (h - 0xD800) * 1024 + (u - 0xDC00)) :: utf16Go none rest
    else if isHighSur u then 0xFFFD :: utf16Go (some u) rest
    else 0xFFFD :: u :: utf16Go none rest

end Lfn

/-- `String::from_utf16_lossy` as a list of scalar values (unpaired surrogate → U+FFFD) -/
def utf16Lossy (us : List Nat) : List Nat := Lfn.utf16Go none us

/-- `str::encode_utf16` on a list of scalar values -/
def encodeUtf16 : List Nat → List Nat
  | [] => []
  | c :: rest =>
    if c < 0x10000 then c :: encodeUtf16 rest
    else (0xD800 + (c - 0x10000) / 1024) :: (0xDC00 + (c - 0x10000) % 1024) :: encodeUtf16 rest

/-- a Unicode scalar value -/
def IsScalar (c : Nat) : Prop := c < 0x110000 ∧ ¬ (0xD800 ≤ c ∧ c ≤ 0xDFFF)

instance (c : Nat) : Decidable (IsScalar c) := by unfold IsScalar; infer_instance

end FatVerif
