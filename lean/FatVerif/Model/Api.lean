import Std.Data.HashMap
import FatVerif.Model.Fs
import FatVerif.Model.Util
/-! The public API as one step function over a session (device + mounted file system + handle tables), mirroring
    /verif/harness/src/exec.rs operation by operation. -/
namespace FatVerif

open Util

inductive SeekKind where
  | start | cur | fromEnd
  deriving Repr, DecidableEq

inductive ApiOp where
  | format (o : Format.FormatOpts)
  | mount
  | unmount
  | dropfs
  | forget
  | openDir (d : Nat) (path : String) (dnew : Nat)
  | createDir (d : Nat) (path : String) (dnew : Nat)
  | openFile (d : Nat) (path : String) (fnew : Nat)
  | createFile (d : Nat) (path : String) (fnew : Nat)
  | remove (d : Nat) (path : String)
  | rename (d : Nat) (src : String) (d2 : Nat) (dst : String)
  | list (d : Nat)
  | read (f : Nat) (n : Nat)
  | readx (f : Nat) (n : Nat)
  | readall (f : Nat)
  | write (f : Nat) (bs : List Nat)
  | writeall (f : Nat) (bs : List Nat)
  | seek (f : Nat) (k : SeekKind) (n : Int)
  | truncate (f : Nat)
  | flush (f : Nat)
  | dropf (f : Nat)
  | dropd (d : Nat)
  | setCreated (f : Nat) (y m d h mi s ms : Nat)
  | setModified (f : Nat) (y m d h mi s ms : Nat)
  | setAccessed (f : Nat) (y m d : Nat)
  | extents (f : Nat)
  | stats
  | status
  | label
  | labelRoot
  | volid
  | fattype

/-- canonical result of one operation: the value tokens after `ok`, or an error, plus listing rows -/
inductive ApiRes where
  | ok (vals : List String) (rows : List String := [])
  | err (e : Err)
  | badScript
  | dead
  deriving Repr, DecidableEq

structure Session where
  dev : Dev
  env : Env
  cfgStrict : Bool := true
  cfgAccDate : Bool := false
  cfgAlloc : Bool := true
  cfgUnicode : Bool := true
  mounted : Bool := false
  dirs : Std.HashMap Nat DirStream := {}
  files : Std.HashMap Nat FileH := {}
  dead : Bool := false

namespace Session

def two (n : Nat) : String := toString n

def showDate (d : Date) : String := s!"{d.year}-{d.month}-{d.day}"
def showTime3 (t : Time) : String := s!"{t.hour}:{t.min}:{t.sec}"
def showTime4 (t : Time) : String := s!"{t.hour}:{t.min}:{t.sec}.{t.millis}"

/-- UTF-16 units → scalar values as `String::from_utf16_lossy` does (unpaired surrogate → U+FFFD);
    the first argument is a pending high surrogate -/
def utf16LossyAux : Option Nat → List Nat → List Char
  | none, [] => []
  | some _, [] => [Char.ofNat 0xFFFD]
  | none, u :: rest =>
    if 0xD800 ≤ u ∧ u ≤ 0xDBFF then utf16LossyAux (some u) rest
    else if 0xDC00 ≤ u ∧ u ≤ 0xDFFF then Char.ofNat 0xFFFD :: utf16LossyAux none rest
    else Char.ofNat u :: utf16LossyAux none rest
  | some h, u :: rest =>
    if 0xDC00 ≤ u ∧ u ≤ 0xDFFF then
      Char.ofNat (0x10000 + (h - 0xD800) * 1024 + (u - 0xDC00)) :: utf16LossyAux none rest
    else if 0xD800 ≤ u ∧ u ≤ 0xDBFF then Char.ofNat 0xFFFD :: utf16LossyAux (some u) rest
    else Char.ofNat 0xFFFD :: Char.ofNat u :: utf16LossyAux none rest

def utf16Lossy (us : List Nat) : List Char := utf16LossyAux none us

/-- `DirEntry::file_name` -/
def fileName (e : DirEntry) : String :=
  if e.lfn.length > 0 then String.ofList (utf16Lossy e.lfn)
  else String.ofList ((e.data.lowercaseName.asBytes).map fun b => Char.ofNat (ShortName.lossyDecode b))

/-- one `L` row: name short attrs size cdate ctime adate mdate mtime lfnunits -/
def listRow (alloc : Bool) (e : DirEntry) : String :=
  let c := e.data.created
  let a := e.data.accessed
  let m := e.data.modified
  " ".intercalate [
    (if alloc then hexOfBytes (utf8OfString (fileName e)) else "-"),
    hexOfBytes e.shortDisplay,
    toString e.data.attrs,
    toString e.data.size,
    showDate c.date, showTime4 c.time,
    showDate a,
    showDate m.date, showTime3 m.time,
    hexOfUnits e.lfn]

def root (s : Session) : DirStream := rootDirStream s.dev.fs

def getDir (s : Session) (d : Nat) : Option DirStream :=
  if d = 0 then (if s.mounted then some s.root else none) else s.dirs[d]?

/-- run a program as one API operation: result and the device afterwards -/
def exec {α : Type} (s : Session) (p : Prog α) : Except Err α × Dev := run p s.dev

def seekFrom (k : SeekKind) (n : Int) : SeekFrom :=
  match k with
  | .start => .start n.toNat
  | .cur => .cur n
  | .fromEnd => .fromEnd n

/-- `readall`: `read(4096)` until it returns 0 -/
def readAllLoop : Nat → FileH → List Nat → Prog (List Nat × FileH)
  | 0, _, _ => .fail .hang
  | fuel + 1, f, acc => do
    let (bs, f) ← f.read 4096
    if bs.isEmpty then pure (acc, f) else readAllLoop fuel f (acc ++ bs)

def fatal (s : Session) (d : Dev) (e : Err) : Session × ApiRes :=
  if e.isFatal then ({ s with dev := d, dead := true }, .err e) else ({ s with dev := d }, .err e)

/-- generic shape: run `p`; on success update the session with `k` -/
def runOp {α : Type} (s : Session) (p : Prog α) (k : Session → α → Session × ApiRes) : Session × ApiRes :=
  match s.exec p with
  | (.ok a, d) => k { s with dev := d } a
  | (.error e, d) => fatal s d e

def withFile (s : Session) (f : Nat) (k : FileH → Session × ApiRes) : Session × ApiRes :=
  match s.files[f]? with
  | some h => k h
  | none => (s, .badScript)

def withDir (s : Session) (d : Nat) (k : DirStream → Session × ApiRes) : Session × ApiRes :=
  match s.getDir d with
  | some h => k h
  | none => (s, .badScript)

def freshD (s : Session) (id : Nat) : Bool := !(s.dirs.contains id) && id != 0
def freshF (s : Session) (id : Nat) : Bool := !(s.files.contains id)

/-- `read_exact` / `write_all` / read-to-end on a `File`, as sequences of single `read`/`write` calls: a call that
    fails leaves the handle as the previous call left it (`&mut self` mutations of completed calls persist) -/
def readxLoop (s : Session) (f : Nat) : Nat → FileH → Nat → List Nat → Session × ApiRes
  | 0, h, _, _ => ({ s with files := s.files.insert f h, dead := true }, .err .hang)
  | fuel + 1, h, n, acc =>
    if n = 0 then ({ s with files := s.files.insert f h }, .ok [hexOfBytes acc])
    else match s.exec (h.read n) with
      | (.ok (bs, h'), d) =>
        let s := { s with dev := d }
        if bs.isEmpty then ({ s with files := s.files.insert f h' }, .err .eof)
        else readxLoop s f fuel h' (n - bs.length) (acc ++ bs)
      | (.error e, d) => fatal { s with files := s.files.insert f h } d e

def readAllLoopS (s : Session) (f : Nat) : Nat → FileH → List Nat → Session × ApiRes
  | 0, h, _ => ({ s with files := s.files.insert f h, dead := true }, .err .hang)
  | fuel + 1, h, acc =>
    match s.exec (h.read 4096) with
    | (.ok (bs, h'), d) =>
      let s := { s with dev := d }
      if bs.isEmpty then ({ s with files := s.files.insert f h' }, .ok [hexOfBytes acc])
      else readAllLoopS s f fuel h' (acc ++ bs)
    | (.error e, d) => fatal { s with files := s.files.insert f h } d e

def writeAllLoopS (s : Session) (f : Nat) : Nat → FileH → List Nat → Session × ApiRes
  | 0, h, _ => ({ s with files := s.files.insert f h, dead := true }, .err .hang)
  | fuel + 1, h, bs =>
    if bs.isEmpty then ({ s with files := s.files.insert f h }, .ok [])
    else match s.exec (h.write bs) with
      | (.ok (n, h'), d) =>
        let s := { s with dev := d }
        if n = 0 then ({ s with files := s.files.insert f h' }, .err .writeZero)
        else writeAllLoopS s f fuel h' (bs.drop n)
      | (.error e, d) => fatal { s with files := s.files.insert f h } d e

def mkDateTime (y m d h mi sec ms : Nat) : Option DateTime := DateTime.new? y m d h mi sec ms

/-- one API operation. The per-operation device counters are reset by the caller (`Dev.resetOp`). -/
def step (s : Session) (op : ApiOp) : Session × ApiRes :=
  if s.dead then (s, .dead) else
  match op with
  | .format o =>
    if s.mounted then (s, .badScript) else
    runOp { s with dev := { s.dev with pos := 0 } } (formatVolume o) fun s _ => (s, .ok [])
  | .mount =>
    if s.mounted then (s, .badScript) else
    runOp { s with dev := { s.dev with pos := 0 } } (mount s.cfgStrict s.cfgAccDate s.cfgAlloc s.cfgUnicode) fun s fs =>
      ({ s with mounted := true }, .ok [toString fs.fatType.bits, toString fs.clusterSize])
  | .unmount =>
    if !s.mounted || !s.dirs.isEmpty || !s.files.isEmpty then (s, .badScript) else
    match s.exec (do s.root.drop; unmount) with
    | (.ok _, d) => ({ s with dev := d, mounted := false }, .ok [])
    | (.error e, d) =>
      -- the file system object is consumed either way; its destructor ran inside `unmount`
      let (s, r) := fatal s d e
      ({ s with mounted := false }, r)
  | .dropfs =>
    if !s.mounted || !s.dirs.isEmpty || !s.files.isEmpty then (s, .badScript) else
    runOp s (do s.root.drop; dropFs) fun s _ => ({ s with mounted := false }, .ok [])
  | .forget =>
    if !s.mounted then (s, .badScript) else
    ({ s with mounted := false, dirs := {}, files := {} }, .ok [])
  | .openDir d path dnew =>
    withDir s d fun h =>
      if !s.freshD dnew then (s, .badScript) else
      runOp s (openDir s.env (pathFuel path) h path) fun s st => ({ s with dirs := s.dirs.insert dnew st }, .ok [])
  | .createDir d path dnew =>
    withDir s d fun h =>
      if !s.freshD dnew then (s, .badScript) else
      runOp s (createDir s.env (pathFuel path) h path) fun s st => ({ s with dirs := s.dirs.insert dnew st }, .ok [])
  | .openFile d path fnew =>
    withDir s d fun h =>
      if !s.freshF fnew then (s, .badScript) else
      runOp s (openFile s.env (pathFuel path) h path) fun s f => ({ s with files := s.files.insert fnew f }, .ok [])
  | .createFile d path fnew =>
    withDir s d fun h =>
      if !s.freshF fnew then (s, .badScript) else
      runOp s (createFile s.env (pathFuel path) h path) fun s f => ({ s with files := s.files.insert fnew f }, .ok [])
  | .remove d path =>
    withDir s d fun h => runOp s (remove s.env (pathFuel path) h path) fun s _ => (s, .ok [])
  | .rename d src d2 dst =>
    withDir s d fun h => withDir s d2 fun h2 =>
      runOp s (rename s.env (pathFuel src + pathFuel dst) h src h2 dst) fun s _ => (s, .ok [])
  | .list d =>
    withDir s d fun h =>
      runOp s (listDir h) fun s es => (s, .ok [toString es.length] (es.map (listRow s.cfgAlloc)))
  | .read f n =>
    withFile s f fun h => runOp s (h.read n) fun s (bs, h) =>
      ({ s with files := s.files.insert f h }, .ok [hexOfBytes bs])
  | .readx f n => withFile s f fun h => readxLoop s f (n + 1) h n []
  | .readall f => withFile s f fun h => readAllLoopS s f 1100000 h []
  | .write f bs =>
    withFile s f fun h => runOp s (h.write bs) fun s (n, h) =>
      ({ s with files := s.files.insert f h }, .ok [toString n])
  | .writeall f bs => withFile s f fun h => writeAllLoopS s f (bs.length + 1) h bs
  | .seek f k n =>
    withFile s f fun h => runOp s (h.seek (seekFrom k n)) fun s (pos, h) =>
      ({ s with files := s.files.insert f h }, .ok [toString pos])
  | .truncate f =>
    withFile s f fun h => runOp s h.truncate fun s h => ({ s with files := s.files.insert f h }, .ok [])
  | .flush f =>
    withFile s f fun h => runOp s h.flush fun s h => ({ s with files := s.files.insert f h }, .ok [])
  | .dropf f =>
    withFile s f fun h => runOp s h.drop fun s _ => ({ s with files := s.files.erase f }, .ok [])
  | .dropd d =>
    if d = 0 then (s, .badScript) else
    withDir s d fun h => runOp s h.drop fun s _ => ({ s with dirs := s.dirs.erase d }, .ok [])
  | .setCreated f y m d h mi sec ms =>
    withFile s f fun fh =>
      match mkDateTime y m d h mi sec ms with
      | some dt => ({ s with files := s.files.insert f (fh.setCreated dt) }, .ok [])
      | none => ({ s with dead := true }, .err .panic)
  | .setModified f y m d h mi sec ms =>
    withFile s f fun fh =>
      match mkDateTime y m d h mi sec ms with
      | some dt => ({ s with files := s.files.insert f (fh.setModified dt) }, .ok [])
      | none => ({ s with dead := true }, .err .panic)
  | .setAccessed f y m d =>
    withFile s f fun fh =>
      match Date.new? y m d with
      | some dt => ({ s with files := s.files.insert f (fh.setAccessed dt) }, .ok [])
      | none => ({ s with dead := true }, .err .panic)
  | .extents f =>
    withFile s f fun h => runOp s h.extents fun s ex =>
      (s, .ok [if ex.isEmpty then "-" else ",".intercalate (ex.map fun (o, sz) => s!"{o}:{sz}")])
  | .stats =>
    if !s.mounted then (s, .badScript) else
    runOp s FatVerif.stats fun s (cs, total, free) => (s, .ok [toString cs, toString total, toString free])
  | .status =>
    if !s.mounted then (s, .badScript) else
    runOp s readStatusFlags fun s (d, i) => (s, .ok [showBool d, showBool i])
  | .label =>
    if !s.mounted then (s, .badScript) else (s, .ok [hexOfBytes (volumeLabelBytes s.dev.fs)])
  | .labelRoot =>
    if !s.mounted then (s, .badScript) else
    runOp s readVolumeLabelFromRootDir fun s r =>
      (s, .ok [match r with | some n => hexOfBytes n | none => "none"])
  | .volid =>
    if !s.mounted then (s, .badScript) else (s, .ok [toString s.dev.fs.volumeId])
  | .fattype =>
    if !s.mounted then (s, .badScript) else (s, .ok [toString s.dev.fs.fatType.bits])

end Session
end FatVerif
