import FatVerif.Model.Basic
/-!
# Names: validation, 8.3 alias generator, path split, case-insensitive comparison

Transliteration of `validate_long_name`, `split_path`, `ShortNameGenerator` (dir.rs) and
`ShortName::{new, eq_ignore_case}`, `DirEntry::{eq_name_lfn, eq_name}` (dir_entry.rs).

Strings are `List Char` (= sequences of Unicode scalar values, exactly Rust's `str::chars()`); byte
indices into the UTF-8 encoding are modelled through `Char.utf8Size`. Bytes and `u16` are `Nat`.
The `String`-typed entry points (`validateLongName`, `new`, `splitPath`) are thin wrappers.
-/
namespace FatVerif.Names

/-! ## UTF-8 byte positions -/

/-- `str::len()`: length in UTF-8 bytes -/
def utf8Len : List Char → Nat
  | [] => 0
  | c :: cs => c.utf8Size + utf8Len cs

/-- `&s[i..]`; `none` = the slice panics (index past the end or not on a char boundary) -/
def sliceFrom : List Char → Nat → Option (List Char)
  | cs, 0 => some cs
  | [], _ + 1 => none
  | c :: cs, i + 1 => if c.utf8Size ≤ i + 1 then sliceFrom cs (i + 1 - c.utf8Size) else none

/-- `&s[..i]`; `none` = the slice panics -/
def sliceTo : List Char → Nat → Option (List Char)
  | _, 0 => some []
  | [], _ + 1 => none
  | c :: cs, i + 1 =>
    if c.utf8Size ≤ i + 1 then (sliceTo cs (i + 1 - c.utf8Size)).map (c :: ·) else none

/-- `s.rfind('.')`: byte index of the last `'.'` -/
def rfindDot : List Char → Option Nat
  | [] => none
  | c :: cs =>
    match rfindDot cs with
    | some i => some (c.utf8Size + i)
    | none => if c = '.' then some 0 else none

/-! ## `validate_long_name` -/

/-- the `match c { … }` of `validate_long_name`, on the scalar value -/
def longCharOk (n : Nat) : Bool :=
  (97 ≤ n && n ≤ 122) || (65 ≤ n && n ≤ 90) || (48 ≤ n && n ≤ 57) || (0x80 ≤ n && n ≤ 0xFFFF) ||
  -- '$' '%' '\'' '-' '_' '@' '~' '`' '!' '(' ')' '{' '}' '.' ' ' '+' ',' ';' '=' '[' ']' '^' '#' '&'
  [36, 37, 39, 45, 95, 64, 126, 96, 33, 40, 41, 123, 125, 46, 32, 43, 44, 59, 61, 91, 93, 94, 35, 38].contains n

def validateLongNameL (name : List Char) : Except Err Unit :=
  if name.isEmpty then .error .nameLen
  else if utf8Len name > 255 then .error .nameLen
  else if name.all (fun c => longCharOk c.toNat) then .ok ()
  else .error .nameChar

def validateLongName (name : String) : Except Err Unit := validateLongNameL name.toList

/-! ### specification side (written independently of the code: the FAT long-name character set) -/

/-- characters the FAT specification forbids in long names, besides controls: `" * / : < > ? \ |` -/
def forbiddenLong : List Nat := [0x22, 0x2A, 0x2F, 0x3A, 0x3C, 0x3E, 0x3F, 0x5C, 0x7C]

/-- the documented long-name set: any UCS-2 code point from space up, except DEL and the nine forbidden
    punctuation characters -/
def InCharset (c : Char) : Prop :=
  0x20 ≤ c.toNat ∧ c.toNat ≤ 0xFFFF ∧ c.toNat ≠ 0x7F ∧ c.toNat ∉ forbiddenLong

instance (c : Char) : Decidable (InCharset c) := by unfold InCharset; infer_instance

/-- the whole validation outcome according to the specification, as a wire code (0 / 10 / 11) -/
def specValidateCode (byteLen : Nat) (name : List Char) : Nat :=
  if byteLen = 0 ∨ byteLen > 255 then 10 else if ∀ c ∈ name, InCharset c then 0 else 11

/-! ## `split_path` -/

/-- `str::trim_matches('/')` -/
def trimSlashes (cs : List Char) : List Char :=
  ((cs.dropWhile (· == '/')).reverse.dropWhile (· == '/')).reverse

def splitPathL (path : List Char) : List Char × Option (List Char) :=
  match (trimSlashes path).span (· != '/') with
  | (a, []) => (a, none)
  | (a, _ :: b) => (a, some b)

def splitPath (path : String) : String × Option String :=
  ((String.ofList (splitPathL path.toList).1), (splitPathL path.toList).2.map String.ofList)

/-! ## `ShortNameGenerator` -/

structure Gen where
  chksum : Nat
  longPrefixBitmap : Nat
  prefixChksumBitmap : Nat
  nameFits : Bool
  lossyConv : Bool
  exactMatch : Bool
  basenameLen : Nat
  shortName : List Nat
  deriving DecidableEq, Repr, Inhabited

/-- `to_ascii_uppercase` on a code -/
def asciiUpper (n : Nat) : Nat := if 97 ≤ n ∧ n ≤ 122 then n - 32 else n

/-- the "copy allowed characters" arm of `copy_short_name_part` -/
def sfnAllowed (n : Nat) : Bool :=
  (65 ≤ n && n ≤ 90) || (97 ≤ n && n ≤ 122) || (48 ≤ n && n ≤ 57) ||
  -- '!' '#' '$' '%' '&' '\'' '(' ')' '-' '@' '^' '_' '`' '{' '}' '~'
  [33, 35, 36, 37, 38, 39, 40, 41, 45, 64, 94, 95, 96, 123, 125, 126].contains n

/-- byte stored for a character that is neither `' '` nor `'.'` -/
def sfnByte (c : Char) : Nat := if sfnAllowed c.toNat then asciiUpper c.toNat else 95

structure PartRes where
  out : List Nat
  fits : Bool
  lossy : Bool
  deriving DecidableEq, Repr

/-- `copy_short_name_part` with `dst.len() = cap`; `out` are the bytes written so far (`dst_pos = out.length`) -/
def copyPart (cap : Nat) : List Char → List Nat → Bool → PartRes
  | [], out, lossy => ⟨out, true, lossy⟩
  | c :: cs, out, lossy =>
    if out.length = cap then ⟨out, false, lossy⟩
    else if c = ' ' ∨ c = '.' then copyPart cap cs out true
    else copyPart cap cs (out ++ [sfnByte c]) (lossy || !(sfnAllowed c.toNat))

/-- the destination field: what was written, then the `SFN_PADDING` it was initialised with -/
def padTo (k : Nat) (l : List Nat) : List Nat := l ++ List.replicate (k - l.length) 32

def checksumStep (chk : Nat) (c : Char) : Nat :=
  (chk / 2 + (chk * 32768) % 65536 + c.toNat % 65536) % 65536

/-- `ShortNameGenerator::checksum` (BSD checksum, wrapping `u16`, `c as u16` truncates) -/
def checksum (name : List Char) : Nat := name.foldl checksumStep 0

/-- the state `new` builds from the two source parts (`ext = none`: no dot found) -/
def newParts (name base : List Char) (ext : Option (List Char)) : Gen :=
  let b := copyPart 8 base [] false
  let e := match ext with
    | none => (⟨[], true, false⟩ : PartRes)
    | some x => copyPart 3 x [] false
  { chksum := checksum name, longPrefixBitmap := 0, prefixChksumBitmap := 0,
    nameFits := b.fits && e.fits, lossyConv := b.lossy || e.lossy, exactMatch := false,
    basenameLen := b.out.length, shortName := padTo 8 b.out ++ padTo 3 e.out }

/-- `name.chars().next().map_or(0, char::len_utf8)` -/
def firstCharLen : List Char → Nat
  | [] => 0
  | c :: _ => c.utf8Size

/-- `ShortNameGenerator::new` (after the repair of F5: the search for the extension dot skips the whole first
    character instead of one byte). The three byte-index slices are still modelled with their panic condition
    (`.error .panic`); `newL_total` proves that none of them can fire any more. -/
def newL (name : List Char) : Except Err Gen :=
  match sliceFrom name (firstCharLen name) with
  | none => .error .panic
  | some rest =>
    match rfindDot rest with
    | none => .ok (newParts name name none)
    | some i =>
      match sliceTo name (i + firstCharLen name), sliceFrom name (i + firstCharLen name + 1) with
      | some base, some ext => .ok (newParts name base (some ext))
      | _, _ => .error .panic

def new (name : String) : Except Err Gen := newL name.toList

def byteAt (sn : List Nat) (i : Nat) : Nat := sn.getD i 0

/-- `char::from(b).to_digit(10)` -/
def digit10 (b : Nat) : Option Nat := if 48 ≤ b ∧ b ≤ 57 then some (b - 48) else none

/-- `char::to_digit(16)` on a byte -/
def digit16 (b : Nat) : Option Nat :=
  if 48 ≤ b ∧ b ≤ 57 then some (b - 48)
  else if 97 ≤ b ∧ b ≤ 102 then some (b - 87)
  else if 65 ≤ b ∧ b ≤ 70 then some (b - 55)
  else none

/-- digit loop of `u16::from_str_radix(_, 16)` with the overflow checks -/
def parseHexDigits : List Nat → Nat → Option Nat
  | [], acc => some acc
  | b :: bs, acc =>
    match digit16 b with
    | none => none
    | some d => if acc * 16 + d < 65536 then parseHexDigits bs (acc * 16 + d) else none

/-- `str::from_utf8(bytes).map(|s| u16::from_str_radix(s, 16))` collapsed to an `Option`: empty → error, a lone
    sign → error, one leading `+` is accepted (no `-` for unsigned types), then hex digits of either case.
    `from_utf8` can fail only if some byte is ≥ 0x80, which `to_digit` rejects as well. -/
def fromStrRadix16 (bs : List Nat) : Option Nat :=
  match bs with
  | [] => none
  | [43] => none
  | [45] => none
  | 43 :: rest => parseHexDigits rest 0
  | _ => parseHexDigits bs 0

def longPrefixLen (g : Gen) : Nat := min 6 g.basenameLen
def shortPrefixLen (g : Gen) : Nat := min 2 g.basenameLen

def setBit (bm i : Nat) : Nat := bm ||| (1 <<< i)
def bitClear (bm i : Nat) : Bool := bm &&& (1 <<< i) == 0

def prefixExtMatch (g : Gen) (sn : List Nat) (plen : Nat) : Bool :=
  sn.take plen == g.shortName.take plen && sn.drop 8 == g.shortName.drop 8

/-- `check_for_long_prefix_collision` -/
def checkLong (g : Gen) (sn : List Nat) : Gen :=
  if byteAt sn (longPrefixLen g) ≠ 126 then g else
  match digit10 (byteAt sn (longPrefixLen g + 1)) with
  | none => g
  | some d =>
    if prefixExtMatch g sn (longPrefixLen g) then { g with longPrefixBitmap := setBit g.longPrefixBitmap d } else g

/-- `check_for_short_prefix_collision` -/
def checkShort (g : Gen) (sn : List Nat) : Gen :=
  if byteAt sn (shortPrefixLen g + 4) ≠ 126 then g else
  match digit10 (byteAt sn (shortPrefixLen g + 4 + 1)) with
  | none => g
  | some d =>
    if prefixExtMatch g sn (shortPrefixLen g) then
      if fromStrRadix16 ((sn.drop (shortPrefixLen g)).take 4) = some g.chksum
      then { g with prefixChksumBitmap := setBit g.prefixChksumBitmap d } else g
    else g

def markExact (g : Gen) (sn : List Nat) : Gen :=
  if sn = g.shortName then { g with exactMatch := true } else g

/-- `add_existing` -/
def addExisting (g : Gen) (sn : List Nat) : Gen := checkShort (checkLong (markExact g sn) sn) sn

/-- upper-case hex digit of a nibble (`char::from_digit(_, 16)` then `make_ascii_uppercase`) -/
def hexUp (d : Nat) : Nat := if d < 10 then 48 + d else 55 + d

def u16ToHex (x : Nat) : List Nat :=
  [hexUp (x / 4096 % 16), hexUp (x / 256 % 16), hexUp (x / 16 % 16), hexUp (x % 16)]

/-- `build_prefixed_name`: the writes into the space-filled buffer, as one concatenation -/
def prefixPart (g : Gen) (withChksum : Bool) : List Nat :=
  if withChksum then g.shortName.take (shortPrefixLen g) ++ u16ToHex g.chksum
  else g.shortName.take (longPrefixLen g)

def buildPrefixedName (g : Gen) (num : Nat) (withChksum : Bool) : List Nat :=
  padTo 8 (prefixPart g withChksum ++ [126, 48 + num]) ++ g.shortName.drop 8

/-- `generate` -/
def generate (g : Gen) : Except Err (List Nat) :=
  if !g.lossyConv && g.nameFits && !g.exactMatch then .ok g.shortName else
  match [1, 2, 3, 4].find? (bitClear g.longPrefixBitmap) with
  | some i => .ok (buildPrefixedName g i false)
  | none =>
    match [1, 2, 3, 4, 5, 6, 7, 8, 9].find? (bitClear g.prefixChksumBitmap) with
    | some i => .ok (buildPrefixedName g i true)
    | none => .error .alreadyExists

/-- `next_iteration` -/
def nextIteration (g : Gen) : Gen :=
  { g with chksum := (g.chksum + 1) % 65536, longPrefixBitmap := 0, prefixChksumBitmap := 0 }

def addAll (g : Gen) (existing : List (List Nat)) : Gen := existing.foldl addExisting g

/-- the retry loop of `check_for_existence` / of the probe `short_name_generate`:
    every round feeds the whole population, tries `generate`, else `next_iteration`.
    Result: the alias and the number of `next_iteration` calls; `none` = `fuel` rounds were not enough. -/
def generateLoop (existing : List (List Nat)) : Nat → Nat → Gen → Option (List Nat × Nat)
  | 0, _, _ => none
  | fuel + 1, i, g =>
    match generate (addAll g existing) with
    | .ok n => some (n, i)
    | .error _ => generateLoop existing fuel (i + 1) (nextIteration (addAll g existing))

/-! ### specification side: legal 8.3 alias (DESIGN C16.1) -/

/-- `A–Z 0–9 ! # $ % & ' ( ) - @ ^ _ ` { } ~` -/
def legalSfnBytes : List Nat := "ABCDEFGHIJKLMNOPQRSTUVWXYZ0123456789!#$%&'()-@^_`{}~".toList.map Char.toNat

/-- legal bytes first, then only padding -/
def LegalField (f : List Nat) : Prop :=
  ∃ k, k ≤ f.length ∧ (∀ b ∈ f.take k, b ∈ legalSfnBytes) ∧ f.drop k = List.replicate (f.length - k) 32

def LegalAlias (a : List Nat) : Prop :=
  a.length = 11 ∧ LegalField (a.take 8) ∧ LegalField (a.drop 8) ∧
  a.head? ≠ some 0x00 ∧ a.head? ≠ some 0x05 ∧ a.head? ≠ some 0xE5 ∧ a.head? ≠ some 0x20

/-- executable version of `LegalField` -/
def legalFieldB (f : List Nat) : Bool :=
  (f.dropWhile (legalSfnBytes.contains ·)).all (· == 32)

def legalAliasB (a : List Nat) : Bool :=
  a.length == 11 && legalFieldB (a.take 8) && legalFieldB (a.drop 8) &&
  !([0x00, 0x05, 0xE5, 0x20].contains (a.headD 0))

/-- the FAT specification's `ChkSum`: `Sum = ((Sum & 1) ? 0x80 : 0) + (Sum >> 1) + *pFcbName++` on an unsigned char -/
def specChkStep (sum b : Nat) : Nat := ((if sum % 2 = 1 then 0x80 else 0) + sum / 2 + b) % 256

def specLfnChecksum : List Nat → Nat → Nat
  | [], sum => sum
  | b :: bs, sum => specLfnChecksum bs (specChkStep sum b)

/-! ## case-insensitive comparison -/

/-- `rposition(|x| x != ' ').map_or(0, |p| p + 1)` -/
def fieldLen (f : List Nat) : Nat := (f.reverse.dropWhile (· == 32)).length

def fixE5 : List Nat → List Nat
  | 5 :: t => 0xE5 :: t
  | l => l

/-- `ShortName::new(raw).as_bytes()` -/
def shortDisplay (raw : List Nat) : List Nat :=
  let nameLen := fieldLen (raw.take 8)
  let extLen := fieldLen ((raw.drop 8).take 3)
  fixE5 (raw.take nameLen ++ (if extLen > 0 then 46 :: (raw.drop 8).take extLen else []))

/-- `LossyOemCpConverter::decode` -/
def oemDecode (b : Nat) : Char := if b ≤ 0x7F then Char.ofNat b else Char.ofNat 0xFFFD

/-- case folding: `flat_map(char_to_uppercase)` -/
def fold (upper : Char → List Char) (cs : List Char) : List Char := cs.flatMap upper

/-- the ASCII variant of `char_to_uppercase` (feature `unicode` off) -/
def upperAscii (c : Char) : List Char := [Char.ofNat (asciiUpper c.toNat)]

/-- the short name as characters: `as_bytes().iter().map(|c| oem_cp_converter.decode(c))` -/
def aliasDisplay (raw : List Nat) : List Char := (shortDisplay raw).map oemDecode

/-- `ShortName::eq_ignore_case` (iterator equality of the two upper-cased streams) -/
def eqIgnoreCase (upper : Char → List Char) (raw : List Nat) (name : List Char) : Bool :=
  fold upper (aliasDisplay raw) == fold upper name

/-- `char::decode_utf16`: one `Option Char` per decoded item, `none` = unpaired surrogate
    (a unit that fails to complete a pair is put back and decoded on its own) -/
def decodeUtf16 : List Nat → List (Option Char)
  | [] => []
  | u :: rest =>
    if u < 0xD800 ∨ 0xDFFF < u then some (Char.ofNat u) :: decodeUtf16 rest
    else if 0xDC00 ≤ u then none :: decodeUtf16 rest
    else match rest with
      | [] => [none]
      | u2 :: rest2 =>
        if 0xDC00 ≤ u2 ∧ u2 ≤ 0xDFFF
        then some (Char.ofNat (0x10000 + (u - 0xD800) * 1024 + (u2 - 0xDC00))) :: decodeUtf16 rest2
        else none :: decodeUtf16 (u2 :: rest2)

/-- `str::encode_utf16` -/
def encodeUtf16 : List Char → List Nat
  | [] => []
  | c :: cs =>
    if c.toNat < 0x10000 then c.toNat :: encodeUtf16 cs
    else (0xD800 + (c.toNat - 0x10000) / 1024) :: (0xDC00 + (c.toNat - 0x10000) % 1024) :: encodeUtf16 cs

/-- the inner `for self_uppercase_char in …` of `eq_name_lfn`: consume the expected characters from the other
    iterator; `none` = mismatch (`return false`) -/
def consume : List Char → List Char → Option (List Char)
  | [], other => some other
  | _ :: _, [] => none
  | x :: xs, y :: other => if x = y then consume xs other else none

/-- the outer loop of `eq_name_lfn` over the decode results; `other` = what is left of the upper-cased query -/
def lfnLoop (upper : Char → List Char) : List (Option Char) → List Char → Bool
  | [], other => other.isEmpty
  | none :: _, _ => false
  | some c :: ds, other =>
    match consume (upper c) other with
    | none => false
    | some other' => lfnLoop upper ds other'

/-- `DirEntry::eq_name_lfn`; `units` = the stored long name (empty = the entry has none) -/
def eqNameLfn (upper : Char → List Char) (units : List Nat) (name : List Char) : Bool :=
  if units.isEmpty then false else lfnLoop upper (decodeUtf16 units) (fold upper name)

/-- `DirEntry::eq_name` -/
def eqName (upper : Char → List Char) (units raw : List Nat) (name : List Char) : Bool :=
  eqNameLfn upper units name || eqIgnoreCase upper raw name

end FatVerif.Names
