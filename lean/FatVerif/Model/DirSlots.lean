import FatVerif.Model.Lfn
import FatVerif.Model.Names
/-!
# The slot-list algebra of ONE directory (dir.rs, pure part)

A directory is the list of the 32-byte slots of its allocated space (`slots : List (List Nat)`; a cluster-chain
directory grows by whole zero-filled clusters, a fixed root never grows).  This file mirrors, on that list,

* `Dir::find_free_entries`            → `findFree`
* the slot writes of `Dir::write_entry` → `writeAt`, `writeEntry`, `writeEntryDot`
* the delete loop of `Dir::remove` / `Dir::rename_internal` → `markDeleted`, `deleteRange`
* `Dir::find_entry` (+ the kind check) → `findEntry`, `findEntryKind`
* the directory-local core of `create_file`/`create_dir`, `remove`, `rename` within one directory
  → `createEntry`, `removeEntry`, `renameEntry`

and gives run-time consistency checks (`checkCreate`, `checkDelete`) that tie the algebra to slot lists read back
from the real implementation.  The effectful, call-exact transliteration is `Model/DirOps.lean`.
-/
namespace FatVerif
namespace DirSlots
open Lfn

/-! ## `find_free_entries` -/

/-- the loop of `find_free_entries`: `firstFree`, `numFree`, `i` exactly as the Rust counters; the end of the list is
    the end of the stream, which `deserialize` turns into an end marker -/
def findFreeLoop (num : Nat) : List (List Nat) → Nat → Nat → Nat → Nat
  | [], firstFree, numFree, i => if numFree = 0 then i else firstFree
  | s :: rest, firstFree, numFree, i =>
    if isEnd s then (if numFree = 0 then i else firstFree)
    else if isDeleted s then
      if numFree + 1 = num then (if numFree = 0 then i else firstFree)
      else findFreeLoop num rest (if numFree = 0 then i else firstFree) (numFree + 1) (i + 1)
    else findFreeLoop num rest firstFree 0 (i + 1)

/-- slot index at which `find_free_entries(num)` positions the stream: the first run of `num` deleted slots
    (first fit), else the end marker — or, the Rust quirk, the start of the deleted run that directly precedes the end
    marker (the new entry then starts inside that run and continues over the end marker) -/
def findFree (slots : List (List Nat)) (num : Nat) : Nat := findFreeLoop num slots 0 0 0

/-! ## writing -/

/-- overwrite from slot `i` on; the list grows if the new slots reach beyond its end (`i ≤ slots.length` always holds
    for `i = findFree …`; on disk growth is by a zero-filled cluster, i.e. this list followed by zero slots) -/
def writeAt (slots : List (List Nat)) (i : Nat) (new : List (List Nat)) : List (List Nat) :=
  slots.take i ++ new ++ slots.drop (i + new.length)

/-- the slots `write_entry(name, sfn)` writes: the long-name run carrying the checksum of the short name, then the
    short entry -/
def entrySlots (units sfn : List Nat) : List (List Nat) :=
  lfnGenerate units (lfnChecksum (sfnName sfn)) ++ [sfn]

/-- `write_entry` for an ordinary name (`units` = `name.encode_utf16()`) -/
def writeEntry (slots : List (List Nat)) (units sfn : List Nat) : List (List Nat) :=
  writeAt slots (findFree slots (numParts units.length + 1)) (entrySlots units sfn)

/-- `write_entry` for `"."` and `".."`: no long-name slots -/
def writeEntryDot (slots : List (List Nat)) (sfn : List Nat) : List (List Nat) :=
  writeAt slots (findFree slots 1) [sfn]

/-! ## deleting -/

/-- `deserialize` → `set_deleted` → `serialize` of one slot: first byte `0xE5`; the attribute byte loses its two
    undefined bits (`from_bits_truncate`), everything else is written back unchanged -/
def markDeleted (s : List Nat) : List Nat := (s.set 0 0xE5).set 11 (byte s 11 % 64)

def deleteFrom : List (List Nat) → Nat → Nat → Nat → List (List Nat)
  | [], _, _, _ => []
  | s :: rest, i, b, e => (if b ≤ i ∧ i < e then markDeleted s else s) :: deleteFrom rest (i + 1) b e

/-- the delete loop over the slots `[b, e)` (`offset_range / 32` of an entry) -/
def deleteRange (slots : List (List Nat)) (b e : Nat) : List (List Nat) := deleteFrom slots 0 b e

/-! ## lookup -/

/-- `DirEntry::eq_name(name)` on a listed entry -/
def matchesName (upper : Char → List Char) (e : LfnEntry) (name : List Char) : Bool :=
  Names.eqName upper e.units (sfnName e.sfn) name

/-- the entries `Dir::iter()` yields (the two buffer variants agree: `lfnbuf_equiv_read`) -/
def listing (slots : List (List Nat)) : List LfnEntry := readDirEntries true true slots

/-- `find_entry(name, None, _)`: the first listed entry whose long name or alias matches; `none` = `NotFound` -/
def findEntry (upper : Char → List Char) (slots : List (List Nat)) (name : List Char) : Option LfnEntry :=
  (listing slots).find? fun e => matchesName upper e name

/-- `find_entry(name, is_dir, _)` with the kind check (`InvalidInput` when the kind disagrees) -/
def findEntryKind (upper : Char → List Char) (slots : List (List Nat)) (name : List Char) (isDir : Option Bool) :
    Except Err LfnEntry :=
  match findEntry upper slots name with
  | none => .error .notFound
  | some e =>
    match isDir with
    | some d => if Lfn.isDir e.sfn == d then .ok e else .error .invalidInput
    | none => .ok e

/-! ## the directory-local core of the public operations -/

/-- a short entry with another raw name (`DirFileEntryData::renamed`) -/
def renamedSfn (sfn alias : List Nat) : List Nat := alias.take 11 ++ sfn.drop 11

/-- `create_file` / `create_dir` in this directory once the alias and the entry body are chosen:
    `AlreadyExists`-style outcome if the name is taken (the real calls then open the existing entry), else the entry
    is written -/
def createEntry (upper : Char → List Char) (slots : List (List Nat)) (name : List Char) (sfn : List Nat) :
    Except Err (List (List Nat)) :=
  match findEntry upper slots name with
  | some _ => .error .alreadyExists
  | none => .ok (writeEntry slots (Names.encodeUtf16 name) sfn)

/-- `remove(name)` in this directory (cluster chain and emptiness check are not slot-list matters) -/
def removeEntry (upper : Char → List Char) (slots : List (List Nat)) (name : List Char) :
    Except Err (List (List Nat)) :=
  match findEntry upper slots name with
  | none => .error .notFound
  | some e => .ok (deleteRange slots e.beginIdx e.endIdx)

/-- `rename_internal(src, self, dst)` within one directory, `alias` = the short name `check_for_existence` generated
    for `dst` (before anything is deleted) -/
def renameEntry (upper : Char → List Char) (slots : List (List Nat)) (src dst : List Char) (alias : List Nat) :
    Except Err (List (List Nat)) :=
  match findEntry upper slots src with
  | none => .error .notFound
  | some e =>
    match findEntry upper slots dst with
    | some d => if d.endIdx = e.endIdx then .ok slots else .error .alreadyExists
    | none =>
      .ok (writeEntry (deleteRange slots e.beginIdx e.endIdx) (Names.encodeUtf16 dst) (renamedSfn e.sfn alias))

/-- the abstraction of a directory: its entries as (long-name units, short slot) pairs -/
def absDir (slots : List (List Nat)) : List (List Nat × List Nat) :=
  (listing slots).map fun e => (e.units, e.sfn)

/-! ## run-time consistency checks against slot lists read back from the implementation -/

def zeroSlot : List Nat := List.replicate 32 0

def isDotUnits (units : List Nat) : Bool := units == [46] || units == [46, 46]

/-- first index at which two slot lists differ -/
def firstDiff : List (List Nat) → List (List Nat) → Nat → Option Nat
  | [], [], _ => none
  | a :: as, b :: bs, i => if a = b then firstDiff as bs (i + 1) else some i
  | _, _, i => some i

/-- `before`/`after`: all slots of the directory before/after a creating call that wrote an entry for the name
    `units` with raw short name `sfn11`.  `none` = `after` is `writeEntry before units sfn'` (followed by zero slots if
    the directory grew), where `sfn'` is the short slot found in `after` at the predicted position and carries
    `sfn11` (its other 21 bytes — attributes, times, cluster, size — are taken as found). -/
def checkCreate (before after : List (List Nat)) (units sfn11 : List Nat) : Option String :=
  let dot := isDotUnits units
  let num := if dot then 1 else numParts units.length + 1
  let p := findFree before num
  let sfn' := after.getD (p + num - 1) []
  if sfnName sfn' ≠ sfn11 then
    some s!"short-name-not-at-predicted-slot slot={p + num - 1}"
  else
    let expected := if dot then writeEntryDot before sfn' else writeEntry before units sfn'
    if after.length < expected.length then some s!"directory-too-short len={after.length} expected={expected.length}"
    else
      match firstDiff (after.take expected.length) expected 0 with
      | some i => some s!"slot-differs index={i} first-free={p} num={num}"
      | none =>
        if (after.drop expected.length).all (· == zeroSlot) then none
        else some s!"nonzero-slot-after-growth from={expected.length}"

/-- `after` must be `deleteRange before b e` -/
def checkDelete (before after : List (List Nat)) (b e : Nat) : Option String :=
  match firstDiff after (deleteRange before b e) 0 with
  | some i => some s!"slot-differs index={i} range={b}..{e}"
  | none => none

end DirSlots
end FatVerif
