/-! Token utilities shared by all driver modules (hex, numbers, options). Import-free. -/
namespace FatVerif.Util

def hexDigit (n : Nat) : Char :=
  if n < 10 then Char.ofNat (48 + n) else Char.ofNat (87 + n)

def hexVal (c : Char) : Option Nat :=
  if '0' ≤ c ∧ c ≤ '9' then some (c.toNat - 48)
  else if 'a' ≤ c ∧ c ≤ 'f' then some (c.toNat - 87)
  else if 'A' ≤ c ∧ c ≤ 'F' then some (c.toNat - 55)
  else none

/-- bytes (as `Nat < 256`) to lower-case hex, `-` for empty -/
def hexOfBytes (bs : List Nat) : String :=
  if bs.isEmpty then "-" else
  String.ofList (bs.flatMap fun b => [hexDigit (b / 16 % 16), hexDigit (b % 16)])

def bytesOfHexChars : List Char → Option (List Nat)
  | [] => some []
  | [_] => none
  | a :: b :: rest =>
    match hexVal a, hexVal b, bytesOfHexChars rest with
    | some x, some y, some r => some ((x * 16 + y) :: r)
    | _, _, _ => none

/-- hex token to bytes; `-` is the empty string -/
def bytesOfHex (s : String) : Option (List Nat) :=
  if s = "-" then some [] else bytesOfHexChars s.toList

/-- u16 units, 4 hex digits per unit (big-endian digits), `-` for empty -/
def hexOfUnits (us : List Nat) : String :=
  if us.isEmpty then "-" else
  String.ofList (us.flatMap fun u =>
    [hexDigit (u / 4096 % 16), hexDigit (u / 256 % 16), hexDigit (u / 16 % 16), hexDigit (u % 16)])

def unitsOfBytes : List Nat → List Nat
  | hi :: lo :: rest => (hi * 256 + lo) :: unitsOfBytes rest
  | _ => []

def unitsOfHex (s : String) : Option (List Nat) :=
  (bytesOfHex s).map unitsOfBytes

/-- list of byte strings joined by `,`; `-` for the empty list -/
def bytesListOfHex (s : String) : Option (List (List Nat)) :=
  if s = "-" then some [] else (s.splitOn ",").mapM bytesOfHex

def hexOfBytesList (l : List (List Nat)) : String :=
  if l.isEmpty then "-" else ",".intercalate (l.map hexOfBytes)

def natOf (s : String) : Option Nat := s.toNat?

def intOf (s : String) : Option Int := s.toInt?

def optNatOf (s : String) : Option (Option Nat) :=
  if s = "none" then some none else (s.toNat?).map some

def showOptNat : Option Nat → String
  | none => "none"
  | some n => toString n

def boolOf (s : String) : Option Bool :=
  if s = "1" then some true else if s = "0" then some false else none

def showBool (b : Bool) : String := if b then "1" else "0"

/-- UTF-8 bytes → String (lossless when valid), used for text arguments passed as hex -/
def stringOfUtf8 (bs : List Nat) : Option String :=
  let ba : ByteArray := ⟨(bs.map fun b => UInt8.ofNat b).toArray⟩
  String.fromUTF8? ba

def utf8OfString (s : String) : List Nat :=
  s.toUTF8.toList.map (·.toNat)

/-- `k=v` argument lookup -/
def kv (args : List String) (key : String) : Option String :=
  args.findSome? fun a =>
    match a.splitOn "=" with
    | [k, v] => if k = key then some v else none
    | _ => none

end FatVerif.Util
