import FatVerif.Model.Util
import FatVerif.Model.Basic
import FatVerif.Model.UInt
import FatVerif.Model.Bpb
import FatVerif.Spec.Geometry
/-! pure-probe driver for suite `bpb` (see /verif/ARCH.md).

```
P bpb.probe <bs-hex512> <strict> => <fat_bits> <bytes_per_sector> <cluster_size> <total_clusters>
      <first_data_sector> <root_dir_sectors> <sectors_per_fat> <reserved_sectors> <fats> <total_sectors>
      <mirroring> <active_fat> <root_dir_first_cluster> <fs_info_sector> <backup_boot_sector>
      <status_dirty> <status_io_error>                      | ERR <code> | PANIC
P bpb.mount <bs-hex512> <fsinfo-hex512> <strict> => ok <fat_bits> <cluster_size> <total_clusters> <free|none>
                                                            | ERR <code> | PANIC
```
`bpb.probe` is `fatfs::verif::bpb_probe`. `bpb.mount` is the real `FileSystem::new` on a device whose first 512
bytes are the boot sector and whose every other 512-byte block is the FS-info sector (so the FS-info read lands on
`fsinfo` wherever `fs_info_sector * bytes_per_sector ≠ 0` points, and on the boot sector itself when it is 0);
`free` is the cached free-cluster count after mounting (observed through `stats()` with device reads disabled). -/
namespace FatVerif.BpbDriver
open FatVerif.Util

def showErr (e : Err) : String :=
  match e with
  | .panic => "PANIC"
  | .hang => "HANG"
  | e => s!"ERR {e.code}"

def showGeometry (g : Geometry) : String :=
  " ".intercalate
    [toString g.fatType.bits, toString g.bytesPerSector, toString g.clusterSize, toString g.totalClusters,
     toString g.firstDataSector, toString g.rootDirSectors, toString g.sectorsPerFat,
     toString g.reservedSectors, toString g.fats, toString g.totalSectors, showBool g.mirroring,
     toString g.activeFat, toString g.rootDirFirstCluster, toString g.fsInfoSector,
     toString g.backupBootSector, showBool g.statusDirty, showBool g.statusIoError]

/-- what `stats()` answers once device I/O is switched off: the cached free count; with no cached count it scans the
    FAT, which fails on the first read, except that a volume without clusters has nothing to scan and yields 0 -/
def observedFree (m : Mounted) : Option Nat :=
  match m.fsInfo.freeClusterCount with
  | some n => some n
  | none => if m.geo.totalClusters = 0 then some 0 else none

def showMounted (m : Mounted) : String :=
  s!"ok {m.geo.fatType.bits} {m.geo.clusterSize} {m.geo.totalClusters} {showOptNat (observedFree m)}"

def hexNib (c : UInt8) : Nat :=
  if 48 ≤ c && c ≤ 57 then c.toNat - 48
  else if 97 ≤ c && c ≤ 102 then c.toNat - 87
  else if 65 ≤ c && c ≤ 70 then c.toNat - 55
  else 255

/-- bytes `0 … i-1` of the hex string `a`, consed in front of `acc` -/
def sectorLoop (a : ByteArray) : Nat → List Nat → Option (List Nat)
  | 0, acc => some acc
  | i + 1, acc =>
    let hi := hexNib (a.get! (2 * i))
    let lo := hexNib (a.get! (2 * i + 1))
    if hi > 15 || lo > 15 then none else sectorLoop a i ((hi * 16 + lo) :: acc)

/-- a 512-byte sector from its 1024 hex digits (fast path; `Util.bytesOfHex` is too slow for 150 000 sectors) -/
def sector? (s : String) : Option (List Nat) :=
  let a := s.toUTF8
  if a.size = 1024 then sectorLoop a 512 [] else none

def handle (fn : String) (args : List String) : Option String :=
  match fn, args with
  | "bpb.probe", [hex, strict] =>
    match sector? hex, boolOf strict with
    | some b, some st =>
      match probe b st with
      | .ok g => some (showGeometry g)
      | .error e => some (showErr e)
    | _, _ => none
  | "bpb.mount", [hex, fhex, strict] =>
    match sector? hex, sector? fhex, boolOf strict with
    | some b, some f, some st =>
      match mountGeometry b f st with
      | .ok m => some (showMounted m)
      | .error e => some (showErr e)
    | _, _, _ => none
  | _, _ => none

/-- (fat bits, cluster size, total clusters) reported by the implementation, if it accepted the volume -/
def acceptedGeometry (fn : String) (implOut : List String) : Option (Nat × Nat × Nat) :=
  match fn, implOut with
  | "bpb.probe", bits :: _bps :: cs :: total :: _ =>
    match natOf bits, natOf cs, natOf total with
    | some a, some b, some c => some (a, b, c)
    | _, _, _ => none
  | "bpb.mount", "ok" :: bits :: cs :: total :: _ =>
    match natOf bits, natOf cs, natOf total with
    | some a, some b, some c => some (a, b, c)
    | _, _, _ => none
  | _, _ => none

/-- C07 evaluated on the IMPLEMENTATION's answer, with the independent specification `GeoSpec` only -/
def oracle (fn : String) (args : List String) (implOut : List String) : Option String :=
  if fn ≠ "bpb.probe" ∧ fn ≠ "bpb.mount" then none else
  match args.head?.bind sector? with
  | none => none
  | some b =>
    if implOut = ["PANIC"] then some s!"C07 mount-panic {GeoSpec.wrapClass b}"
    else if implOut = ["HANG"] then some "C07 mount-hang -"
    else match acceptedGeometry fn implOut with
      | none => none          -- an error result: always allowed
      | some (bits, cs, total) =>
        match GeoSpec.firstFailing b with
        | some c => some s!"C07 accepted-incoherent {c.name}"
        | none =>
          let (ft, scs, stotal) := GeoSpec.specGeometry b
          if ft.bits = bits ∧ scs = cs ∧ stotal = total then none
          else some s!"C07 geometry-differs impl={bits}/{cs}/{total},spec={ft.bits}/{scs}/{stotal}"

def branch (fn : String) (args : List String) : String :=
  match args.head?.bind sector? with
  | none => "malformed"
  | some b =>
    let layout := if (Bpb.deserialize b).isFat32 then "L32" else "L1x"
    let st := (args.getLast?.bind boolOf).getD true
    let r : String :=
      match fn with
      | "bpb.mount" =>
        (match args with
         | [_, fhex, _] =>
           match sector? fhex with
           | some f =>
             (match mountGeometry b f st with
              | .ok m => s!"ok{m.geo.fatType.bits}" ++ (if m.fsInfo.freeClusterCount.isSome then "+free" else "")
              | .error .panic => "panic"
              | .error _ => "err")
           | none => "malformed"
         | _ => "malformed")
      | _ =>
        match probe b st with
        | .ok g => s!"ok{g.fatType.bits}"
        | .error .panic => "panic-" ++ GeoSpec.wrapClass b
        | .error _ => "err"
    layout ++ "/" ++ r

end FatVerif.BpbDriver
