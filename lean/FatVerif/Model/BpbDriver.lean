import FatVerif.Model.Util
import FatVerif.Model.Basic
/-! pure-probe driver for suite `Bpb` — STUB, to be replaced (see /verif/ARCH.md). -/
namespace FatVerif.BpbDriver

def handle (_fn : String) (_args : List String) : Option String := none

def oracle (_fn : String) (_args : List String) (_implOut : List String) : Option String := none

def branch (_fn : String) (_args : List String) : String := "-"

end FatVerif.BpbDriver
