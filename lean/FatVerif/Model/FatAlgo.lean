import FatVerif.Model.FatCodec
/-!
# Byte-level FAT algorithms (`table.rs`)

`find_free`, `count_free`, `alloc_cluster`, `ClusterIterator::{next,free,truncate}`, `format_fat`, `read_fat_flags`
as pure functions on the bytes of one FAT copy, with the scan order and the error behaviour of the Rust code.
No device faults here: the only errors are `noSpace`, `eof` (read past the end), `writeZero` (write past the end),
`panic` (u32 overflow with overflow-checks on) and `hang` (fuel exhausted).
State of /repo: with the repairs of F9 (42d2b2d), F10 (54cda0a) and F21 (8aee7d6).
-/
namespace FatVerif.Fat

/-- outcome of a mutating operation: the result and the bytes afterwards (also after an error) -/
structure Res (α : Type) where
  out : Except Err α
  fat : Array Nat

/-! ## find_free -/

/-- `Fat16::find_free` loop: `n` = remaining iterations (`end − cluster`), the stream is at `c*2` -/
def findFreeLoop16 (f : Array Nat) : Nat → Nat → Except Err Nat
  | 0, _ => .error .noSpace
  | n + 1, c =>
    if f.size < c * 2 + 2 then .error .eof
    else if rd16 f (c * 2) = 0 then .ok c
    else findFreeLoop16 f n (c + 1)

def findFree16 (f : Array Nat) (s e : Nat) : Except Err Nat :=
  if u32Lim ≤ s * 2 then .error .panic else findFreeLoop16 f (e - s) s

def findFreeLoop32 (f : Array Nat) : Nat → Nat → Except Err Nat
  | 0, _ => .error .noSpace
  | n + 1, c =>
    if f.size < c * 4 + 4 then .error .eof
    else if rd32 f (c * 4) % 268435456 = 0 then .ok c
    else findFreeLoop32 f n (c + 1)

def findFree32 (f : Array Nat) (s e : Nat) : Except Err Nat :=
  if u32Lim ≤ s * 4 then .error .panic else findFreeLoop32 f (e - s) s

/-- `Fat12::find_free` loop body. State: current `cluster`, the 16-bit `packed` word that holds it, stream position
    `pos`. The end test happens AFTER the increment (`cluster == end_cluster`); `findFree12` enters the loop only
    with `start < end` (since commit 8aee7d6), so the test is reached. Each non-final iteration consumes ≥ 1 byte, so
    fuel `f.size + 2` is never exhausted. -/
def findFreeLoop12 (f : Array Nat) (e : Nat) : Nat → Nat → Nat → Nat → Except Err Nat
  | 0, _, _, _ => .error .hang
  | k + 1, c, packed, pos =>
    if val12 c packed = 0 then .ok c
    else if c + 1 = e then .error .noSpace
    else if (c + 1) % 2 = 0 then
      (if f.size < pos + 2 then .error .eof
       else findFreeLoop12 f e k (c + 1) (rd16 f pos) (pos + 2))
    else
      (if f.size < pos + 1 then .error .eof
       else findFreeLoop12 f e k (c + 1) (packed / 256 + 256 * rd f pos) (pos + 1))

def findFree12 (f : Array Nat) (s e : Nat) : Except Err Nat :=
  if e ≤ s then .error .noSpace              -- F21 repaired (commit 8aee7d6): empty range, nothing is read
  else if u32Lim ≤ s + s / 2 then .error .panic
  else if f.size < s + s / 2 + 2 then .error .eof
  else findFreeLoop12 f e (f.size + 2) s (rd16 f (s + s / 2)) (s + s / 2 + 2)

/-- `find_free_cluster` -/
def findFree : FatType → Array Nat → Nat → Nat → Except Err Nat
  | .fat12 => findFree12
  | .fat16 => findFree16
  | .fat32 => findFree32

/-! ## count_free -/

/-- `Fat12::count_free` streaming decoder: even cluster reads a u16, odd cluster reads one byte and combines it with
    `prev_packed_val >> 12` (the combined value is NOT the entry value — the byte is shifted by 8, not 4 — but it is
    zero exactly when the entry is). `n` = remaining iterations. -/
def countFreeLoop12 (f : Array Nat) : Nat → Nat → Nat → Nat → Nat → Except Err Nat
  | 0, _, _, _, cnt => .ok cnt
  | n + 1, c, pos, prev, cnt =>
    if c % 2 = 0 then
      (if f.size < pos + 2 then .error .eof
       else countFreeLoop12 f n (c + 1) (pos + 2) (rd16 f pos)
              (if rd16 f pos % 4096 = 0 then cnt + 1 else cnt))
    else
      (if f.size < pos + 1 then .error .eof
       else countFreeLoop12 f n (c + 1) (pos + 1) (rd f pos)
              (if rd f pos * 256 + prev / 4096 = 0 then cnt + 1 else cnt))

def countFreeLoop16 (f : Array Nat) : Nat → Nat → Nat → Except Err Nat
  | 0, _, cnt => .ok cnt
  | n + 1, c, cnt =>
    if f.size < c * 2 + 2 then .error .eof
    else countFreeLoop16 f n (c + 1) (if rd16 f (c * 2) = 0 then cnt + 1 else cnt)

def countFreeLoop32 (f : Array Nat) : Nat → Nat → Nat → Except Err Nat
  | 0, _, cnt => .ok cnt
  | n + 1, c, cnt =>
    if f.size < c * 4 + 4 then .error .eof
    else countFreeLoop32 f n (c + 1) (if rd32 f (c * 4) % 268435456 = 0 then cnt + 1 else cnt)

/-- `count_free_clusters(fat, fat_type, total_clusters)` -/
def countFree (ft : FatType) (f : Array Nat) (total : Nat) : Except Err Nat :=
  if u32Lim ≤ total + 2 then .error .panic
  else match ft with
    | .fat12 => countFreeLoop12 f total 2 3 0 0
    | .fat16 => countFreeLoop16 f total 2 0
    | .fat32 => countFreeLoop32 f total 2 0

/-! ## alloc_cluster -/

def allocStart (hint : Option Nat) (endc : Nat) : Nat :=
  match hint with
  | some n => if n < endc then n else 2
  | none => 2

/-- the two scans: `[start, end)`, then — only after `NotEnoughSpace` and if `start > 2` — `[2, start)`;
    every other error of the first scan is returned (F9 repaired, commit 42d2b2d) -/
def allocFind (ft : FatType) (f : Array Nat) (start endc : Nat) : Except Err Nat :=
  match findFree ft f start endc with
  | .ok n => .ok n
  | .error e =>
    if e = .noSpace ∧ start > 2 then findFree ft f 2 start
    else .error e

def allocLinkPrev (ft : FatType) (f1 : Array Nat) (prev : Option Nat) (n : Nat) : Res Nat :=
  match prev with
  | none => ⟨.ok n, f1⟩
  | some p =>
    match set ft f1 p (.data n) with
    | .error e => ⟨.error e, setAfter ft f1 p (.data n)⟩
    | .ok f2 => ⟨.ok n, f2⟩

def allocLink (ft : FatType) (f : Array Nat) (prev : Option Nat) (n : Nat) : Res Nat :=
  match set ft f n .eoc with
  | .error e => ⟨.error e, setAfter ft f n .eoc⟩
  | .ok f1 => allocLinkPrev ft f1 prev n

/-- `alloc_cluster(fat, fat_type, prev_cluster, hint, total_clusters)` -/
def allocCluster (f : Array Nat) (ft : FatType) (prev hint : Option Nat) (total : Nat) : Res Nat :=
  if u32Lim ≤ total + 2 then ⟨.error .panic, f⟩
  else match allocFind ft f (allocStart hint (total + 2)) (total + 2) with
    | .error e => ⟨.error e, f⟩
    | .ok n => allocLink ft f prev n

/-! ## ClusterIterator -/

/-- `get_next_cluster` -/
def chainNext (ft : FatType) (f : Array Nat) (c : Nat) : Except Err (Option Nat) :=
  match get ft f c with
  | .ok (.data n) => .ok (some n)
  | .ok _ => .ok none
  | .error e => .error e

structure Iter where
  cluster : Option Nat
  err : Bool
  deriving Repr, DecidableEq

def iterNew (c : Nat) : Iter := ⟨some c, false⟩

/-- state of the iterator after `next()` (the `err` latch: once set, `next` does nothing any more) -/
def iterAdvance (ft : FatType) (f : Array Nat) (it : Iter) : Iter :=
  if it.err then it
  else match it.cluster with
    | none => it
    | some cur =>
      match chainNext ft f cur with
      | .ok nx => { it with cluster := nx }
      | .error _ => { it with err := true }

/-- the item yielded by `next()` -/
def iterItem (ft : FatType) (f : Array Nat) (it : Iter) : Option (Except Err Nat) :=
  if it.err then none
  else match it.cluster with
    | none => none
    | some cur =>
      match chainNext ft f cur with
      | .ok (some n) => some (.ok n)
      | .ok none => none
      | .error e => some (.error e)

/-- `ClusterIterator::free` loop (F10 repaired, commit 54cda0a): `if let Some(Err(err)) = self.next() { return Err(err) }`
    — an error of `next()` (in this pure setting: `eof` for a cluster outside the bytes, or the offset-overflow
    `panic`, which the model carries as an error value) ends the loop before anything is written.
    `hang` = the fuel ran out with clusters left (see `Props/C03fat.free_never_hangs`: impossible for fuel > size). -/
def freeLoop (ft : FatType) : Nat → Array Nat → Iter → Nat → Res Nat
  | 0, f, it, cnt => match it.cluster with
    | none => ⟨.ok cnt, f⟩
    | some _ => ⟨.error .hang, f⟩
  | k + 1, f, it, cnt =>
    match it.cluster with
    | none => ⟨.ok cnt, f⟩
    | some n =>
      match iterItem ft f it with
      | some (.error e) => ⟨.error e, f⟩
      | _ =>
        match set ft f n .free with
        | .error e => ⟨.error e, setAfter ft f n .free⟩
        | .ok f' => freeLoop ft k f' (iterAdvance ft f it) (cnt + 1)

/-- `ClusterIterator::new(fat, ft, c).free()` with `fuel` loop iterations -/
def freeChain (ft : FatType) (f : Array Nat) (c fuel : Nat) : Res Nat :=
  freeLoop ft fuel f (iterNew c) 0

/-- `ClusterIterator::new(fat, ft, c).truncate()` -/
def truncateChain (ft : FatType) (f : Array Nat) (c fuel : Nat) : Res Nat :=
  match iterItem ft f (iterNew c) with
  | some (.error e) => ⟨.error e, f⟩
  | _ =>
    match set ft f c .eoc with
    | .error e => ⟨.error e, setAfter ft f c .eoc⟩
    | .ok f' => freeLoop ft fuel f' (iterAdvance ft f (iterNew c)) 0

/-- `ClusterIterator::new(..).take(max)` collected with `?` -/
def chainWalk (ft : FatType) (f : Array Nat) : Nat → Iter → Except Err (List Nat)
  | 0, _ => .ok []
  | k + 1, it =>
    match iterItem ft f it with
    | none => .ok []
    | some (.error e) => .error e
    | some (.ok c) =>
      match chainWalk ft f k (iterAdvance ft f it) with
      | .ok cs => .ok (c :: cs)
      | .error e => .error e

def chain (ft : FatType) (f : Array Nat) (c max : Nat) : Except Err (List Nat) :=
  chainWalk ft f max (iterNew c)

/-! ## format_fat -/

def writeBytes (f : Array Nat) : Nat → List Nat → Array Nat
  | _, [] => f
  | pos, b :: bs => writeBytes (wr f pos b) (pos + 1) bs

/-- the reserved entries 0 and 1 as written by `format_fat` -/
def fmtHeader : FatType → Nat → List Nat
  | .fat12, media => [media % 256, 0xFF, 0xFF]
  | .fat16, media => [media % 256, 0xFF, 0xFF, 0xFF]
  | .fat32, media => [media % 256, 0xFF, 0xFF, 0x0F, 0xFF, 0xFF, 0xFF, 0xFF]

/-- `for cluster in c..c+n { write_fat(cluster, v)? }` -/
def fmtLoop (ft : FatType) (v : FatValue) : Nat → Array Nat → Nat → Res Unit
  | 0, f, _ => ⟨.ok (), f⟩
  | n + 1, f, c =>
    match set ft f c v with
    | .error e => ⟨.error e, setAfter ft f c v⟩
    | .ok f' => fmtLoop ft v n f' (c + 1)

/-- `end_cluster = (bytes_per_fat * 8 / bits) as u32` -/
def fmtEnd (ft : FatType) (bytesPerFat : Nat) : Nat := bytesPerFat * 8 / ft.bits % u32Lim

def fmtBad (ft : FatType) (f : Array Nat) (endc : Nat) : Res Unit :=
  if endc > 0x0FFFFFF0 then fmtLoop ft .bad (min 0x10000000 endc - 0x0FFFFFF0) f 0x0FFFFFF0
  else ⟨.ok (), f⟩

/-- `format_fat(fat, fat_type, media, bytes_per_fat, total_clusters)` on a stream positioned at 0 -/
def formatFat (ft : FatType) (f : Array Nat) (media bytesPerFat total : Nat) : Res Unit :=
  if f.size < (fmtHeader ft media).length then ⟨.error .writeZero, writeBytes f 0 (fmtHeader ft media)⟩
  else if u32Lim ≤ total + 2 then ⟨.error .panic, writeBytes f 0 (fmtHeader ft media)⟩
  else if 18446744073709551616 ≤ bytesPerFat * 8 then ⟨.error .panic, writeBytes f 0 (fmtHeader ft media)⟩
  else
    match fmtLoop ft .eoc (fmtEnd ft bytesPerFat - (total + 2)) (writeBytes f 0 (fmtHeader ft media)) (total + 2) with
    | ⟨.error e, f1⟩ => ⟨.error e, f1⟩
    | ⟨.ok (), f1⟩ => fmtBad ft f1 (fmtEnd ft bytesPerFat)

/-! ## read_fat_flags -/

/-- (dirty, io_error) -/
def readFatFlags (ft : FatType) (f : Array Nat) : Except Err (Bool × Bool) :=
  match ft with
  | .fat12 => .ok (false, false)
  | .fat16 =>
    match getRaw16 f 1 with
    | .ok v => .ok (decide (v / 32768 % 2 = 0), decide (v / 16384 % 2 = 0))
    | .error e => .error e
  | .fat32 =>
    match getRaw32 f 1 with
    | .ok v => .ok (decide (v / 134217728 % 2 = 0), decide (v / 67108864 % 2 = 0))
    | .error e => .error e

end FatVerif.Fat
