import FatVerif.Model.Util
import FatVerif.Model.Basic
import FatVerif.Model.Names
/-!
pure-probe driver for suite `names` (see /verif/ARCH.md)

```
names.validate <namehex>                       => 0|10|11
names.checksum <hex11>                         => n
names.split    <pathhex>                       => <hex> <hex|none>
names.gen_new  <namehex>                       => chksum fits lossy baselen <hex11> | PANIC
names.generate <namehex> <hex11,hex11,…|-> <maxiter> => <hex11> <iters> | none | PANIC
names.short_eq <hex11> <namehex>               => 0|1      (names: ASCII and U+FFFD only)
```
-/
namespace FatVerif.NamesDriver
open FatVerif.Util FatVerif.Names

def textOf (h : String) : Option (List Char) := do
  let bs ← bytesOfHex h
  let s ← stringOfUtf8 bs
  pure s.toList

def hexOfText (cs : List Char) : String := hexOfBytes (utf8OfString (String.ofList cs))

def bad : String := "MODEL-BADARG"

def showGen (g : Gen) : String :=
  s!"{g.chksum} {showBool g.nameFits} {showBool g.lossyConv} {g.basenameLen} {hexOfBytes g.shortName}"

def runGenerate (name : List Char) (existing : List (List Nat)) (maxIter : Nat) : String :=
  match newL name with
  | .error _ => "PANIC"
  | .ok g =>
    match generateLoop existing maxIter 0 g with
    | none => "none"
    | some (n, i) => s!"{hexOfBytes n} {i}"

/-- names the `short_eq` model covers with the ASCII `upper` although the harness is built with feature
    `unicode`: on ASCII characters and on U+FFFD `char::to_uppercase` and `to_ascii_uppercase` coincide -/
def asciiOrFffd (cs : List Char) : Bool := cs.all fun c => c.toNat < 128 || c.toNat == 0xFFFD

def handle (fn : String) (args : List String) : Option String :=
  match fn, args with
  | "names.validate", [h] => some <|
    match textOf h with
    | none => bad
    | some cs => match validateLongNameL cs with
      | .ok _ => "0"
      | .error e => toString e.code
  | "names.checksum", [h] => some <|
    match bytesOfHex h with
    | none => bad
    | some bs => toString (lfnChecksum bs)
  | "names.split", [h] => some <|
    match textOf h with
    | none => bad
    | some cs =>
      let r := splitPathL cs
      hexOfText r.1 ++ " " ++ (match r.2 with | none => "none" | some b => hexOfText b)
  | "names.gen_new", [h] => some <|
    match textOf h with
    | none => bad
    | some cs => match newL cs with
      | .ok g => showGen g
      | .error _ => "PANIC"
  | "names.generate", [h, ex, mi] => some <|
    match textOf h, bytesListOfHex ex, natOf mi with
    | some cs, some existing, some maxIter => runGenerate cs existing maxIter
    | _, _, _ => bad
  | "names.short_eq", [r, h] => some <|
    match bytesOfHex r, textOf h with
    | some raw, some cs =>
      if asciiOrFffd cs then showBool (eqIgnoreCase upperAscii raw cs) else "MODEL-UNSUPPORTED"
    | _, _ => bad
  | _, _ => none

/-- class of a name on which the alias generator panicked (defect F5, repaired in /repo 0f20958: the model never
    answers PANIC any more; the oracle stays so that a regression is reported as a C15 violation) -/
def panicClass (cs : List Char) : String :=
  match cs with
  | [] => "empty"
  | c :: _ => if c.utf8Size > 1 then "multibyte-first-char" else "other"

def oracleGenerate (h : String) (ex : String) (mi : String) (implOut : List String) : Option String :=
  match bytesListOfHex ex, natOf mi with
  | some existing, some maxIter =>
    match implOut with
    | ["none"] =>
      if maxIter ≥ existing.length / 9 + 2
      then some s!"C16 alias-no-termination name={h} population={existing.length} maxiter={maxIter}"
      else none
    | [a, _] =>
      match bytesOfHex a with
      | none => some s!"C16 alias-illegal unparsable name={h}"
      | some alias =>
        -- C16.1 is a statement about non-empty names (`alias_legal_partial`; the empty name, which validation
        -- rejects, gets the all-blank name: `alias_legal_counterexample`)
        if h != "-" && !legalAliasB alias then some s!"C16 alias-illegal name={h} alias={a}"
        else if existing.contains alias then some s!"C16 alias-not-fresh name={h} alias={a}"
        else none
    | _ => none
  | _, _ => none

def oracle (fn : String) (args : List String) (implOut : List String) : Option String :=
  match fn, args with
  | "names.validate", [h] =>
    match bytesOfHex h, textOf h with
    | some bs, some cs =>
      let spec := toString (specValidateCode bs.length cs)
      if implOut = [spec] then none
      else some s!"C15 validate-wrong name={h} impl={" ".intercalate implOut} spec={spec}"
    | _, _ => none
  | "names.checksum", [h] =>
    match bytesOfHex h with
    | some bs =>
      let spec := toString (specLfnChecksum bs 0)
      if implOut = [spec] then none else some s!"C16 checksum-wrong sfn={h} impl={" ".intercalate implOut} spec={spec}"
    | none => none
  | "names.gen_new", [h] =>
    if implOut = ["PANIC"] then
      match textOf h with
      | some cs => some s!"C15 alias-gen-panic {panicClass cs} name={h}"
      | none => none
    else none
  | "names.generate", [h, ex, mi] =>
    if implOut = ["PANIC"] then
      match textOf h with
      | some cs => some s!"C15 alias-gen-panic {panicClass cs} name={h}"
      | none => none
    else oracleGenerate h ex mi implOut
  | _, _ => none

def validateBranch (cs : List Char) : String :=
  match validateLongNameL cs with
  | .ok _ => if cs.all (·.toNat < 128) then "ok-ascii" else "ok-bmp"
  | .error .nameLen => if cs.isEmpty then "empty" else "too-long"
  | .error _ =>
    if cs.any (·.toNat > 0xFFFF) then "bad-astral"
    else if cs.any (·.toNat < 32) then "bad-control" else "bad-punct"

def genBranch (cs : List Char) : String :=
  match newL cs with
  | .error _ => "panic-" ++ panicClass cs
  | .ok g =>
    (if g.lossyConv then "lossy" else "lossless") ++ (if g.nameFits then "-fits" else "-nofit") ++
    (if g.basenameLen = 0 then "-base0" else if g.basenameLen < 2 then "-base1" else if g.basenameLen < 6 then "-base2to5"
     else "-base6to8")

def generateBranch (cs : List Char) (existing : List (List Nat)) (maxIter : Nat) : String :=
  match newL cs with
  | .error _ => "panic-" ++ panicClass cs
  | .ok g =>
    match generateLoop existing maxIter 0 g with
    | none => "none"
    | some (n, i) =>
      let pop := if existing.length = 0 then "pop0" else if existing.length < 14 then "pop<14"
        else if existing.length < 100 then "pop<100" else "pop>=100"
      let form := if n = g.shortName then "exact"
        else if byteAt n (longPrefixLen g) = 126 ∧ n.take (longPrefixLen g) = g.shortName.take (longPrefixLen g) then "long~N"
        else "hash~N"
      let it := if i = 0 then "it0" else if i = 1 then "it1" else if i < 10 then "it<10" else "it>=10"
      s!"{form}-{it}-{pop}"

def branch (fn : String) (args : List String) : String :=
  match fn, args with
  | "names.validate", [h] => (textOf h).elim "badarg" validateBranch
  | "names.gen_new", [h] => (textOf h).elim "badarg" genBranch
  | "names.generate", [h, ex, mi] =>
    match textOf h, bytesListOfHex ex, natOf mi with
    | some cs, some existing, some maxIter => generateBranch cs existing maxIter
    | _, _, _ => "badarg"
  | "names.split", [h] =>
    match textOf h with
    | some cs => if (splitPathL cs).2.isSome then "multi" else "single"
    | none => "badarg"
  | "names.short_eq", [r, h] =>
    match bytesOfHex r, textOf h with
    | some raw, some cs => if eqIgnoreCase upperAscii raw cs then "eq" else "ne"
    | _, _ => "badarg"
  | _, _ => "-"

end FatVerif.NamesDriver
