import FatVerif.Model.Basic
/-!
# `AFile` — the `fatfs::File` handle as a cursor machine over a cluster chain

Transliteration of `/repo/src/file.rs` (`read`, `write`, `seek`, `truncate`, `flush`) and of the default loops
`read_exact` / `write_all` of `/repo/src/io.rs`.  The device and the FAT are abstracted:

* the FAT restricted to this file is the list `chain` (cluster numbers in chain order, starting at
  `first_cluster`); `cluster_iter(n).next()` is `nextOf chain n`;
* the data region is `data : cluster → offset in cluster → byte`; the device is reliable (transfers every byte
  it is asked for);
* the allocator is an arbitrary `Allocator σ`: `alloc` hands out a cluster or `none` (= `NotEnoughSpace`),
  `release` takes back the clusters freed by `truncate`.

What is *not* modelled: directories (`entry = None`), the volume dirty flag, `update_accessed_date`,
device errors.  Machine integers are `Nat`/`Int` with the range checks the Rust code performs written out
(`u32::try_from`, `i64::checked_add`, the `MAX_FILE_SIZE` clip, the `u32` subtraction in `bytes_left_in_file`).
-/
namespace FatVerif.Cursor

/-- `io::SeekFrom`: `Start(u64)`, `Current(i64)`, `End(i64)` -/
inductive SeekFrom where
  | start (n : Nat)
  | current (d : Int)
  | fromEnd (d : Int)
  deriving DecidableEq, Repr, Inhabited

/-- `u32::MAX` = `MAX_FILE_SIZE` -/
def u32Max : Nat := 4294967295

/-- `i64::MAX` -/
def i64Max : Int := 9223372036854775807

/-- the abstract allocator (`alloc_cluster` / `free_cluster_chain` / `truncate_cluster_chain` seen from one file) -/
structure Allocator (σ : Type) where
  /-- a cluster that is not part of any live chain, or `none` = `Error::NotEnoughSpace` -/
  alloc : σ → Option (Nat × σ)
  /-- the clusters of a freed chain suffix go back to the allocator -/
  release : List Nat → σ → σ

/-- The file handle together with the parts of the volume it can see. -/
structure AFile where
  /-- cluster size in bytes (`fs.cluster_size()`), > 0 -/
  cs : Nat
  /-- the FAT restricted to this file: the chain starting at `firstCluster` -/
  chain : List Nat
  /-- data region: cluster ↦ offset in cluster ↦ byte -/
  data : Nat → Nat → Nat
  /-- `entry.size` (in the `DirEntryEditor`) -/
  size : Nat
  /-- `first_cluster` (handle and editor are always updated together) -/
  firstCluster : Option Nat
  /-- `offset` -/
  offset : Nat
  /-- `current_cluster`: "if offset points between clusters current_cluster is the previous cluster" -/
  current : Option Nat
  /-- `DirEntryEditor::dirty` -/
  dirty : Bool
  /-- `entry.modified` (abstract time stamp) -/
  mtime : Nat
  /-- what the `TimeProvider` answers (constant clock) -/
  now : Nat

/-- `cluster_iter(c).next()` on the FAT restricted to the file: successor of `c` in the chain -/
def nextOf : List Nat → Nat → Option Nat
  | [], _ => none
  | [_], _ => none
  | x :: y :: r, c => if x = c then some y else nextOf (y :: r) c

/-- `truncate_cluster_chain(c)`: the part of the chain that stays (up to and including `c`) -/
def cutAfter (c : Nat) : List Nat → List Nat
  | [] => []
  | x :: xs => if x = c then [x] else x :: cutAfter c xs

/-- `truncate_cluster_chain(c)`: the part of the chain that is freed (everything after `c`) -/
def freedAfter (c : Nat) : List Nat → List Nat
  | [] => []
  | x :: xs => if x = c then xs else freedAfter c xs

/-- `BiosParameterBlock::clusters_from_bytes`: rounds UP -/
def clustersFromBytes (cs bytes : Nat) : Nat := (bytes + cs - 1) / cs

namespace AFile

/-- "next cluster": the cluster the cursor enters when it sits on a cluster boundary -/
def boundaryCluster (f : AFile) : Option Nat :=
  match f.current with
  | none => f.firstCluster
  | some c => nextOf f.chain c

/-- `current_cluster_opt` of `File::read` -/
def readCluster (f : AFile) : Option Nat :=
  if f.offset % f.cs = 0 then f.boundaryCluster else f.current

/-- `read_size` of `File::read` (`size - offset` is a `u32` subtraction, guarded in `read`) -/
def readLen (f : AFile) (n : Nat) : Nat :=
  min (min n (f.cs - f.offset % f.cs)) (f.size - f.offset)

/-- the `k` bytes of cluster `c` starting at offset-in-cluster `o` -/
def clusterBytes (f : AFile) (c o k : Nat) : List Nat :=
  (List.range k).map fun j => f.data c (o + j)

/-- ONE call of `File::read` with a buffer of `n` bytes -/
def read (f : AFile) (n : Nat) : Except Err (List Nat) × AFile :=
  match f.readCluster with
  | none => (.ok [], f)
  | some c =>
    if f.size < f.offset then (.error .panic, f)      -- `s - self.offset` overflows (overflow-checks build)
    else if f.readLen n = 0 then (.ok [], f)
    else (.ok (f.clusterBytes c (f.offset % f.cs) (f.readLen n)),
          { f with offset := f.offset + f.readLen n, current := some c })

/-- `write_size` of `File::write` -/
def writeLen (f : AFile) (n : Nat) : Nat :=
  min (min n (f.cs - f.offset % f.cs)) (u32Max - f.offset)

/-- `alloc_cluster(self.current_cluster, false)` succeeded with `c`: link it and, for an empty file,
    `set_first_cluster`.  The new cluster is NOT zeroed (files: `zero = false`). -/
def linkNew (f : AFile) (c : Nat) : AFile :=
  match f.firstCluster with
  | none => { f with chain := [c], firstCluster := some c, dirty := true }
  | some _ => { f with chain := if f.chain.getLast? = f.current then f.chain ++ [c] else f.chain }

/-- "Get cluster for write possibly allocating new one" -/
def writeCluster {σ : Type} (A : Allocator σ) (f : AFile) (s : σ) : Except Err Nat × AFile × σ :=
  if f.offset % f.cs = 0 then
    match f.boundaryCluster with
    | some n => (.ok n, f, s)
    | none =>
      match A.alloc s with
      | none => (.error .noSpace, f, s)
      | some (c, s') => (.ok c, f.linkNew c, s')
  else
    match f.current with
    | some n => (.ok n, f, s)
    | none => (.error .panic, f, s)                   -- "Offset inside cluster but no cluster allocated"

/-- device write of `bs` into cluster `c` at offset-in-cluster `o` -/
def putBytes (data : Nat → Nat → Nat) (c o : Nat) (arr : Array Nat) (c' j : Nat) : Nat :=
  if c' = c ∧ o ≤ j ∧ j < o + arr.size then arr.getD (j - o) 0 else data c' j

/-- the tail of `File::write`: device write, `offset += n`, `current_cluster`, `update_dir_entry_after_write` -/
def put (f : AFile) (c : Nat) (bs : List Nat) : AFile :=
  { f with
    data := putBytes f.data c (f.offset % f.cs) bs.toArray
    offset := f.offset + bs.length
    current := some c
    size := if f.size < f.offset + bs.length then f.offset + bs.length else f.size
    mtime := f.now
    dirty := f.dirty || decide (f.mtime ≠ f.now) || decide (f.size < f.offset + bs.length) }

/-- ONE call of `File::write` -/
def write {σ : Type} (A : Allocator σ) (f : AFile) (s : σ) (bs : List Nat) : Except Err Nat × AFile × σ :=
  if f.writeLen bs.length = 0 then (.ok 0, f, s)
  else
    match f.writeCluster A s with
    | (.error e, f', s') => (.error e, f', s')
    | (.ok c, f', s') => (.ok (f.writeLen bs.length), f'.put c (bs.take (f.writeLen bs.length)), s')

/-- `i64::from(base).checked_add(d).and_then(|n| u32::try_from(n).ok())` -/
def addToU32 (base : Nat) (d : Int) : Option Nat :=
  if (base : Int) + d > i64Max then none               -- checked_add overflow
  else if 0 ≤ (base : Int) + d ∧ (base : Int) + d ≤ (u32Max : Int) then some ((base : Int) + d).toNat
  else none

/-- `new_offset_opt` of `File::seek` -/
def seekTarget (f : AFile) : SeekFrom → Option Nat
  | .start n => if n ≤ u32Max then some n else none
  | .current d => addToU32 f.offset d
  | .fromEnd d => addToU32 f.size d

/-- the `for i in 0..clusters_to_skip` loop of `File::seek`: `(cluster, new_offset)` -/
def seekWalk (chain : List Nat) (cs : Nat) (cluster i : Nat) : Nat → Nat → Nat × Nat
  | 0, newOff => (cluster, newOff)
  | todo + 1, newOff =>
    match nextOf chain cluster with
    | some c => seekWalk chain cs c (i + 1) todo newOff
    | none => (cluster, (i + 1) * cs)                  -- "cluster chain ends before the new position"

/-- `File::seek` after the target has been computed and clamped to the size -/
def seekTo (f : AFile) (new : Nat) : Except Err Nat × AFile :=
  if new = f.offset then (.ok f.offset, f)
  else if new = 0 then (.ok 0, { f with offset := 0, current := none })
  else if clustersFromBytes f.cs new = clustersFromBytes f.cs f.offset then (.ok new, { f with offset := new })
  else
    match f.firstCluster with
    | some first =>
      let r := seekWalk f.chain f.cs first 0 (clustersFromBytes f.cs new - 1) new
      (.ok r.2, { f with offset := r.2, current := some r.1 })
    | none => (.ok 0, { f with offset := 0, current := none })   -- "empty file - always seek to 0"

/-- `File::seek` -/
def seek (f : AFile) (w : SeekFrom) : Except Err Nat × AFile :=
  match f.seekTarget w with
  | none => (.error .invalidInput, f)
  | some t => f.seekTo (if t > f.size then f.size else t)

/-- the editor part of `File::truncate`: `e.set_size(offset)`, and `e.set_first_cluster(None)` when `offset == 0` -/
def truncEntry (f : AFile) : AFile :=
  { f with size := f.offset
           dirty := f.dirty || decide (f.size ≠ f.offset) || (decide (f.offset = 0) && f.firstCluster.isSome) }

/-- `File::truncate` (the `debug_assert!`s are active in the build under test) -/
def truncate {σ : Type} (A : Allocator σ) (f : AFile) (s : σ) : Except Err Unit × AFile × σ :=
  match f.current with
  | some c =>
    if f.offset = 0 then (.error .panic, f.truncEntry, s)
    else (.ok (), { f.truncEntry with chain := cutAfter c f.chain }, A.release (freedAfter c f.chain) s)
  | none =>
    if f.offset ≠ 0 then (.error .panic, f.truncEntry, s)
    else
      match f.firstCluster with
      | some _ => (.ok (), { f.truncEntry with chain := [], firstCluster := none }, A.release f.chain s)
      | none => (.ok (), f.truncEntry, s)

/-- `File::flush`: the editor writes its record if dirty -/
def flush (f : AFile) : Except Err Unit × AFile :=
  (.ok (), { f with dirty := false })

/-- drop the handle (flushes) and `open_file` again: a fresh handle on the recorded entry -/
def reopen (f : AFile) : AFile :=
  { f with offset := 0, current := none, dirty := false }

/-- `Read::read_exact` (io.rs); `acc` = the part of the buffer already filled; fuel bounds the `while` loop -/
def readExactLoop : Nat → AFile → Nat → List Nat → Except Err (List Nat) × AFile
  | 0, f, need, acc => if need = 0 then (.ok acc, f) else (.error .hang, f)
  | fuel + 1, f, need, acc =>
    if need = 0 then (.ok acc, f)
    else
      match f.read need with
      | (.error e, f') => (.error e, f')
      | (.ok l, f') =>
        if l.length = 0 then (.error .eof, f')
        else readExactLoop fuel f' (need - l.length) (acc ++ l)

def readExact (f : AFile) (n : Nat) : Except Err (List Nat) × AFile :=
  readExactLoop n f n []

/-- `Write::write_all` (io.rs) -/
def writeAllLoop {σ : Type} (A : Allocator σ) : Nat → AFile → σ → List Nat → Except Err Unit × AFile × σ
  | 0, f, s, bs => if bs.length = 0 then (.ok (), f, s) else (.error .hang, f, s)
  | fuel + 1, f, s, bs =>
    if bs.length = 0 then (.ok (), f, s)
    else
      match f.write A s bs with
      | (.error e, f', s') => (.error e, f', s')
      | (.ok n, f', s') =>
        if n = 0 then (.error .writeZero, f', s')
        else writeAllLoop A fuel f' s' (bs.drop n)

def writeAll {σ : Type} (A : Allocator σ) (f : AFile) (s : σ) (bs : List Nat) : Except Err Unit × AFile × σ :=
  writeAllLoop A bs.length f s bs

/-- `File::extents`: `(cluster, size)` per cluster of the chain, sizes clipped by `bytes_left` -/
def extentsFrom (cs : Nat) : List Nat → Nat → List (Nat × Nat)
  | [], _ => []
  | c :: r, left => (c, min cs left) :: extentsFrom cs r (left - min cs left)

def extents (f : AFile) : List (Nat × Nat) :=
  match f.firstCluster with
  | none => []
  | some _ => extentsFrom f.cs f.chain f.size

/-- a new, empty file (what `create_file` hands out) -/
def empty (cs : Nat) (data : Nat → Nat → Nat) (now : Nat) : AFile :=
  { cs := cs, chain := [], data := data, size := 0, firstCluster := none, offset := 0, current := none,
    dirty := false, mtime := now, now := now }

end AFile

/-- operations of a history on one file -/
inductive FileOp where
  | read (n : Nat)
  | write (bs : List Nat)
  | readExact (n : Nat)
  | writeAll (bs : List Nat)
  | seek (w : SeekFrom)
  | truncate
  | flush
  | reopen
  deriving DecidableEq, Repr, Inhabited

/-- observable results.  `errAt e p`: a loop (`read_exact`/`write_all`) failed with `e` and left the cursor at `p`
    (io.rs leaves the number of bytes transferred before the error unspecified, so the probe reports it) -/
inductive FileRes where
  | bytes (l : List Nat)
  | count (n : Nat)
  | pos (n : Nat)
  | unit
  | err (e : Err)
  | errAt (e : Err) (p : Nat)
  deriving DecidableEq, Repr, Inhabited

namespace AFile

/-- one operation of a history -/
def step {σ : Type} (A : Allocator σ) (op : FileOp) (f : AFile) (s : σ) : FileRes × AFile × σ :=
  match op with
  | .read n =>
    match f.read n with
    | (.ok l, f') => (.bytes l, f', s)
    | (.error e, f') => (.err e, f', s)
  | .write bs =>
    match f.write A s bs with
    | (.ok k, f', s') => (.count k, f', s')
    | (.error e, f', s') => (.err e, f', s')
  | .readExact n =>
    match f.readExact n with
    | (.ok l, f') => (.bytes l, f', s)
    | (.error e, f') => (.errAt e f'.offset, f', s)
  | .writeAll bs =>
    match f.writeAll A s bs with
    | (.ok _, f', s') => (.unit, f', s')
    | (.error e, f', s') => (.errAt e f'.offset, f', s')
  | .seek w =>
    match f.seek w with
    | (.ok p, f') => (.pos p, f', s)
    | (.error e, f') => (.err e, f', s)
  | .truncate =>
    match f.truncate A s with
    | (.ok _, f', s') => (.unit, f', s')
    | (.error e, f', s') => (.err e, f', s')
  | .flush =>
    match f.flush with
    | (.ok _, f') => (.unit, f', s)
    | (.error e, f') => (.err e, f', s)
  | .reopen =>
    -- the probe reads the whole file back through a temporary handle (seek to end for the size, `read_exact`)
    match f.reopen.readExact f.size with
    | (.ok l, _) => (.bytes l, f.reopen, s)
    | (.error e, f') => (.errAt e f'.offset, f.reopen, s)

/-- a whole history: the list of results and the final state -/
def run {σ : Type} (A : Allocator σ) : List FileOp → AFile → σ → List FileRes × AFile × σ
  | [], f, s => ([], f, s)
  | op :: ops, f, s =>
    let r := step A op f s
    let rest := run A ops r.2.1 r.2.2
    (r.1 :: rest.1, rest.2)

end AFile

/-! ## a concrete allocator for the driver: fresh numbers, bounded capacity -/

/-- `next` = next fresh cluster number, `free` = how many clusters the volume still has -/
structure CounterAlloc where
  next : Nat
  free : Nat
  deriving DecidableEq, Repr, Inhabited

def counterAllocator : Allocator CounterAlloc where
  alloc s := if s.free = 0 then none else some (s.next, { next := s.next + 1, free := s.free - 1 })
  release l s := { s with free := s.free + l.length }

end FatVerif.Cursor
