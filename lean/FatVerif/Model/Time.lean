import FatVerif.Model.Basic
/-!
# DOS date / time packing — transliteration of `/repo/src/time.rs`

All machine integers are `Nat`; the u16/u8 wrap-around that the Rust expressions perform is written out
explicitly (`% 65536`, `% 256`).  `Date::new` / `Time::new` panic outside their asserted ranges: `Date.new?` /
`Time.new?` return `none` there.

Reachable values.  `Date`/`Time` are `#[non_exhaustive]` with public fields, so library code only ever sees values
built by `new` (asserted ranges) or by `decode` (year 1980..2107, month 0..15, day 0..31, hour 0..31, min 0..63,
sec 0..64, millis 0..990) — unless a caller mutates the public fields afterwards.  `encode` is therefore modelled
for *arbitrary* u16 fields:

* `Date::encode` computes `self.year - 1980` first.  For `year < 1980` this is a u16 underflow: a panic with
  overflow checks (the profile the harness uses), a wrap in plain release builds.  `Date.encode` uses truncated
  subtraction; `Date.encodePanics` says when the real code would panic.  Not reachable through `new`/`decode`.
* `<<` never panics for shift amounts below the bit width; the bits shifted out are dropped (`% 65536`).
* `Time::encode` casts `millis / 10 + (sec % 2) * 100` with `as u8` (truncation, `% 256`); the sum itself cannot
  overflow u16 (≤ 6553 + 100).
-/
namespace FatVerif

structure Date where
  year : Nat
  month : Nat
  day : Nat
  deriving DecidableEq, Repr, Inhabited

structure Time where
  hour : Nat
  min : Nat
  sec : Nat
  millis : Nat
  deriving DecidableEq, Repr, Inhabited

structure DateTime where
  date : Date
  time : Time
  deriving DecidableEq, Repr, Inhabited

def MIN_YEAR : Nat := 1980
def MAX_YEAR : Nat := 2107

/-- the three `assert!`s of `Date::new` -/
def Date.inRange (y m d : Nat) : Prop :=
  1980 ≤ y ∧ y ≤ 2107 ∧ 1 ≤ m ∧ m ≤ 12 ∧ 1 ≤ d ∧ d ≤ 31

instance (y m d : Nat) : Decidable (Date.inRange y m d) := by
  unfold Date.inRange; infer_instance

/-- `Date::new`; `none` = panic -/
def Date.new? (y m d : Nat) : Option Date :=
  if Date.inRange y m d then some ⟨y, m, d⟩ else none

/-- `Date::decode(dos_date: u16)`:
    `((dos_date >> 9) + MIN_YEAR, (dos_date >> 5) & 0xF, dos_date & 0x1F)` (no overflow: 127 + 1980) -/
def Date.decode (raw : Nat) : Date :=
  ⟨raw / 512 + 1980, raw / 32 % 16, raw % 32⟩

/-- `Date::encode`: `((year - MIN_YEAR) << 9) | (month << 5) | day` in u16 -/
def Date.encode (d : Date) : Nat :=
  ((d.year - 1980) * 512 % 65536 ||| d.month * 32 % 65536) ||| d.day

/-- the real `encode` panics (overflow checks on) exactly when the subtraction underflows -/
def Date.encodePanics (d : Date) : Bool := decide (d.year < 1980)

/-- the four `assert!`s of `Time::new` -/
def Time.inRange (h mi s ms : Nat) : Prop :=
  h ≤ 23 ∧ mi ≤ 59 ∧ s ≤ 59 ∧ ms ≤ 999

instance (h mi s ms : Nat) : Decidable (Time.inRange h mi s ms) := by
  unfold Time.inRange; infer_instance

/-- `Time::new`; `none` = panic -/
def Time.new? (h mi s ms : Nat) : Option Time :=
  if Time.inRange h mi s ms then some ⟨h, mi, s, ms⟩ else none

/-- `Time::decode(dos_time: u16, dos_time_hi_res: u8)` -/
def Time.decode (raw hi : Nat) : Time :=
  ⟨raw / 2048, raw / 32 % 64, raw % 32 * 2 + hi / 100, hi % 100 * 10⟩

/-- first component of `Time::encode`: `(hour << 11) | (min << 5) | (sec / 2)` in u16 -/
def Time.encodeLo (t : Time) : Nat :=
  (t.hour * 2048 % 65536 ||| t.min * 32 % 65536) ||| t.sec / 2

/-- second component of `Time::encode`: `((millis / 10) + (sec % 2) * 100) as u8` -/
def Time.encodeHi (t : Time) : Nat :=
  (t.millis / 10 + t.sec % 2 * 100) % 256

/-- `Time::encode` -/
def Time.encode (t : Time) : Nat × Nat := (t.encodeLo, t.encodeHi)

/-- `DateTime::decode` -/
def DateTime.decode (dosDate dosTime hi : Nat) : DateTime :=
  ⟨Date.decode dosDate, Time.decode dosTime hi⟩

/-- `DateTime::new(Date::new(..), Time::new(..))`; `none` = one of the constructors panics -/
def DateTime.new? (y m d h mi s ms : Nat) : Option DateTime :=
  match Date.new? y m d, Time.new? h mi s ms with
  | some dt, some t => some ⟨dt, t⟩
  | _, _ => none

/-- what the creation time stamp keeps of a `Time`: 10 ms resolution -/
def Time.round10 (t : Time) : Time := { t with millis := t.millis / 10 * 10 }

/-- what the modification time stamp keeps of a `Time`: 2 s resolution, no sub-second part -/
def Time.round2s (t : Time) : Time := { t with sec := t.sec / 2 * 2, millis := 0 }

end FatVerif
