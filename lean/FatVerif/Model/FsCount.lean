import FatVerif.Model.FatView
/-!
# Free-space accounting of `fs.rs` as a pure state machine over the decoded FAT view

State: the FAT view, `total_clusters`, whether the volume is FAT32 (only then the FS-info sector exists) and the
in-memory `FsInfoSector {free_cluster_count, next_free_cluster, dirty}`. Operations (transliterated from `fs.rs`,
state of /repo after the repairs of F9/F10/F13/F21):

* `deserializeInfo` / `mountInfo`  — `FsInfoSector::deserialize` (0xFFFFFFFF → None, hint 0/1 → None), "dirty volume ⇒
  forget the count", `validate_and_fix`;
* `statsOp`     — `stats` / `recalc_free_clusters` (lazy recount, cached);
* `allocOp`     — `FileSystem::alloc_cluster` (hint := cluster+1 if that is < total+2, else 2; cached count − 1, a
  checked u32 subtraction);
* `freeOp` / `truncateOp` — `free_cluster_chain` / `truncate_cluster_chain` (cached count + returned number);
* `unmountInfo` — `flush_fs_info`: what is written to the FS-info sector, if anything.

The FAT side uses the view-level functions of `FatView` (`allocV`, `freeChainV`, `truncateChainV`, `countFreeV`), which
`Proofs/FatSim.lean` ties to the byte-level code. Read/write errors of the FAT (entries outside the bytes) are not
part of this machine: it describes sane tables.
-/
namespace FatVerif.FsCount
open FatVerif.Fat

/-- `FsInfoSector` -/
structure Info where
  free : Option Nat := none
  next : Option Nat := none
  dirty : Bool := false
  deriving DecidableEq, Repr, Inhabited

structure FsCountState where
  fat : Nat → FatValue
  total : Nat
  fat32 : Bool
  info : Info

/-- `FsInfoSector::deserialize`: the two u32 fields -/
def deserializeInfo (rawFree rawNext : Nat) : Info :=
  { free := if rawFree = 0xFFFFFFFF then none else some rawFree
    next := if rawNext = 0xFFFFFFFF ∨ rawNext = 0 ∨ rawNext = 1 then none else some rawNext
    dirty := false }

/-- `validate_and_fix` on the count -/
def fixFree (total : Nat) : Option Nat → Option Nat
  | some n => if n > total then none else some n
  | none => none

/-- `validate_and_fix` on the hint: anything up to `total+2` (one past the last cluster) is kept -/
def fixNext (total : Nat) : Option Nat → Option Nat
  | some n => if n > total + 2 then none else some n
  | none => none

/-- `FileSystem::new`, FS-info part: FAT32 reads the sector (else `Default`), a dirty volume forgets the count,
    then `validate_and_fix(total_clusters)` -/
def mountInfo (fat32 dirtyFlag : Bool) (total : Nat) (disk : Info) : Info :=
  { free := fixFree total (if dirtyFlag then none else (if fat32 then disk.free else none))
    next := fixNext total (if fat32 then disk.next else none)
    dirty := false }

/-- `map_free_clusters` -/
def Info.mapFree (i : Info) (f : Nat → Nat) : Info :=
  match i.free with
  | some n => { i with free := some (f n), dirty := true }
  | none => i

/-- `stats().free_clusters` and the state afterwards -/
def statsOp (s : FsCountState) : FsCountState × Nat :=
  match s.info.free with
  | some n => (s, n)
  | none =>
    ({ s with info := { s.info with free := some (countFreeV s.fat s.total), dirty := true } },
     countFreeV s.fat s.total)

/-- the hint stored after allocating `c` -/
def nextHint (total c : Nat) : Nat := if c + 1 < total + 2 then c + 1 else 2

/-- `FileSystem::alloc_cluster(prev, _)` -/
def allocOp (s : FsCountState) (prev : Option Nat) : Except Err (FsCountState × Nat) :=
  match allocV s.fat prev s.info.next s.total with
  | none => .error .noSpace
  | some (c, g') =>
    match s.info.free with
    | some 0 => .error .panic                       -- `n - 1` underflows (checked u32 arithmetic)
    | _ =>
      .ok ({ s with fat := g',
                    info := Info.mapFree { s.info with next := some (nextHint s.total c), dirty := true }
                              (· - 1) }, c)

/-- loop budget used for chain walks (no acyclic chain is longer than the table) -/
def chainFuel (s : FsCountState) : Nat := s.total + 4

/-- `free_cluster_chain(c)` -/
def freeOp (s : FsCountState) (c : Nat) : Except Err FsCountState :=
  match freeChainV s.fat (some c) (chainFuel s) 0 with
  | none => .error .hang
  | some (n, g') => .ok { s with fat := g', info := s.info.mapFree (· + n) }

/-- `truncate_cluster_chain(c)` -/
def truncateOp (s : FsCountState) (c : Nat) : Except Err FsCountState :=
  match truncateChainV s.fat c (chainFuel s) with
  | none => .error .hang
  | some (n, g') => .ok { s with fat := g', info := s.info.mapFree (· + n) }

/-- `flush_fs_info`: the (count, hint) written to the FS-info sector (`None` is stored as 0xFFFFFFFF), or `none` if
    nothing is written (not FAT32, or nothing changed) -/
def unmountInfo (s : FsCountState) : Option (Option Nat × Option Nat) :=
  if s.fat32 ∧ s.info.dirty then some (s.info.free, s.info.next) else none

def unmountOp (s : FsCountState) : FsCountState :=
  if s.fat32 ∧ s.info.dirty then { s with info := { s.info with dirty := false } } else s

/-- u32 field as stored -/
def encodeField : Option Nat → Nat
  | some n => n
  | none => 0xFFFFFFFF

/-! ## operations as data, for histories and for the runtime tie -/

inductive Op where
  | mount (dirtyFlag : Bool) (rawFree rawNext : Nat)   -- the two u32 fields of the FS-info sector as found on disk
  | stats
  | alloc (prev : Option Nat)
  | free (c : Nat)
  | truncate (c : Nat)
  | unmount
  deriving DecidableEq, Repr

/-- what an operation lets the caller observe -/
inductive Out where
  | unit
  | num (n : Nat)                                    -- `stats`: free clusters; `alloc`: the new cluster
  | fsinfo (w : Option (Option Nat × Option Nat))    -- `unmount`: what was written to the FS-info sector
  deriving DecidableEq, Repr

def step (s : FsCountState) : Op → Except Err (FsCountState × Out)
  | .mount d rf rn => .ok ({ s with info := mountInfo s.fat32 d s.total (deserializeInfo rf rn) }, .unit)
  | .stats => .ok ((statsOp s).1, .num (statsOp s).2)
  | .alloc prev =>
    match allocOp s prev with
    | .ok (s', c) => .ok (s', .num c)
    | .error e => .error e
  | .free c =>
    match freeOp s c with
    | .ok s' => .ok (s', .unit)
    | .error e => .error e
  | .truncate c =>
    match truncateOp s c with
    | .ok s' => .ok (s', .unit)
    | .error e => .error e
  | .unmount => .ok (unmountOp s, .fsinfo (unmountInfo s))

def runOps : FsCountState → List Op → Except Err FsCountState
  | s, [] => .ok s
  | s, op :: ops =>
    match step s op with
    | .ok (s', _) => runOps s' ops
    | .error e => .error e

/-! ## runtime tie: compare one observed step of the real code (or of the effectful model) with this machine -/

def showOpt : Option Nat → String
  | some n => toString n
  | none => "none"

def showInfo (i : Info) : String := s!"free={showOpt i.free},next={showOpt i.next},dirty={i.dirty}"

def showOut : Out → String
  | .unit => "unit"
  | .num n => s!"num:{n}"
  | .fsinfo none => "fsinfo:-"
  | .fsinfo (some (f, n)) => s!"fsinfo:{showOpt f}/{showOpt n}"

/-- first entry of `[0, n)` on which two views differ -/
def firstDiff (a b : Nat → FatValue) (n : Nat) : Option Nat :=
  (List.range n).find? fun i => a i ≠ b i

/-- the executable forms of the invariants of `Props/C05count.lean` -/
def countOkB (s : FsCountState) : Bool :=
  match s.info.free with
  | some n => n == countFreeV s.fat s.total
  | none => true

def hintOkB (s : FsCountState) : Bool :=
  match s.info.next with
  | some h => decide (2 ≤ h ∧ h ≤ s.total + 2)
  | none => true

/-- `checkStep before after op obs`: `before` is the state before the call (FAT view decoded from the image, cached
    FS-info values), `after` the observed state after it, `obs` what the call returned / wrote (if observed).
    Returns `some "C05 <signature> <detail>"` on the first disagreement with the pure machine or violation of its
    invariants, `none` if the step is explained by the machine. A step on which the machine reports an error
    (NotEnoughSpace, …) is accepted iff nothing changed. -/
def checkStep (before after : FsCountState) (op : Op) (obs : Option Out := none) : Option String :=
  match step before op with
  | .error e =>
    if after.info ≠ before.info then
      some s!"C05 count-step-error-changed-info err={e.code} before={showInfo before.info} after={showInfo after.info}"
    else none
  | .ok (m, out) =>
    match firstDiff m.fat after.fat (before.total + 2) with
    | some i => some s!"C05 count-fat-differs entry={i}"
    | none =>
      if m.info ≠ after.info then
        some s!"C05 count-info-differs model={showInfo m.info} observed={showInfo after.info}"
      else if !(countOkB after) then
        some s!"C05 count-inv-broken cached={showOpt after.info.free} actual={countFreeV after.fat after.total}"
      else if !(hintOkB after) then
        some s!"C05 hint-out-of-range hint={showOpt after.info.next} total={after.total}"
      else match obs with
        | some o => if o ≠ out then some s!"C05 count-obs-differs model={showOut out} observed={showOut o}" else none
        | none => none

end FatVerif.FsCount
