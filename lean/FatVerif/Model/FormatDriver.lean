import FatVerif.Model.Util
import FatVerif.Model.Basic
import FatVerif.Model.Format
import FatVerif.Spec.ValidBpb
/-!
pure-probe driver for suite `format` (property C06, boot-sector part).

```
P format.bs bps=<n> total=<n> bpc=<n|none> fat=<12|16|32|none> root=<n> fats=<n> media=<n> spt=<n> heads=<n>
            drive=<n|none> volid=<n> label=<hex11|none> => <fatbits> <hex512> | ERR <code> | PANIC
P format.sweepblock <start> <end> => <nfail> <first_fail|none>      (default options, every total in [start,end))
```
-/
namespace FatVerif.FormatDriver
open FatVerif.Util FatVerif.Format

def fatOf (s : String) : Option (Option FatType) :=
  if s = "none" then some none
  else if s = "12" then some (some .fat12)
  else if s = "16" then some (some .fat16)
  else if s = "32" then some (some .fat32)
  else none

def labelOf (s : String) : Option (Option (List Nat)) :=
  if s = "none" then some none
  else match bytesOfHex s with
    | some bs => if bs.length = 11 then some (some bs) else none
    | none => none

/-- parse the `k=v` arguments of `format.bs` into options and the sector count -/
def parseArgs (args : List String) : Option (FormatOpts × Nat) := do
  let bps ← (kv args "bps").bind natOf
  let total ← (kv args "total").bind natOf
  let bpc ← (kv args "bpc").bind optNatOf
  let fat ← (kv args "fat").bind fatOf
  let root ← (kv args "root").bind natOf
  let fats ← (kv args "fats").bind natOf
  let media ← (kv args "media").bind natOf
  let spt ← (kv args "spt").bind natOf
  let heads ← (kv args "heads").bind natOf
  let drive ← (kv args "drive").bind optNatOf
  let volid ← (kv args "volid").bind natOf
  let label ← (kv args "label").bind labelOf
  some ({ bps := bps, totalSectors := some total, bpc := bpc, fatType := fat, rootEntries := root, fats := fats,
          media := media, spt := spt, heads := heads, driveNum := drive, volumeId := volid, label := label }, total)

def showResult : Except Err (List Nat × FatType) → String
  | .ok (bytes, ft) => s!"{ft.bits} {hexOfBytes bytes}"
  | .error .panic => "PANIC"
  | .error e => s!"ERR {e.code}"

/-- number of failing totals in `[a, b)` for default options, and the first one: by `format_default_total`
    (Props/C06) formatting with default options fails exactly for `total < 42` -/
def sweepBlock (a b : Nat) : String :=
  let nfail := min b 42 - min a 42
  let first := if a < b ∧ a < 42 then toString a else "none"
  s!"{nfail} {first}"

def handle (fn : String) (args : List String) : Option String :=
  if fn = "format.bs" then
    match parseArgs args with
    | some (o, total) => some (showResult (formatBootSectorBytes o total))
    | none => some "BADARGS"
  else if fn = "format.sweepblock" then
    match args with
    | [a, b] =>
      match natOf a, natOf b with
      | some a, some b => some (sweepBlock a b)
      | _, _ => some "BADARGS"
    | _ => some "BADARGS"
  else none

def requestOf (o : FormatOpts) (total : Nat) : FormatSpec.Request :=
  { bps := o.bps, total := total, bpc := o.bpc, width := o.fatType.map FatType.bits, rootEntries := o.rootEntries,
    fats := o.fats, media := o.media, spt := o.spt, heads := o.heads, driveNum := o.driveNum,
    volumeId := o.volumeId, label := o.label }

def isDefaultSizing (o : FormatOpts) : Bool :=
  o.bps == 512 && o.bpc.isNone && o.fatType.isNone && o.rootEntries == 512 && o.fats == 2

/-- label of a panic (labelling only — the verdict "a panic is a violation" does not depend on the model) -/
def panicClass (o : FormatOpts) (total : Nat) : String :=
  match o.bpc with
  | some c => if c < o.bps then "bpc-lt-bps" else panicClass2
  | none => panicClass2
where
  panicClass2 : String :=
    match determineFsLayout o total with
    | .ok l => if l.fatType = .fat32 ∧ 4294967296 ≤ l.spf * o.bps * 8 then "fat-entries-overflow" else "other"
    | .error _ => "other"

/-- C06 oracle on the implementation's answer -/
def oracle (fn : String) (args : List String) (implOut : List String) : Option String :=
  if fn = "format.bs" then
    match parseArgs args with
    | none => none
    | some (o, total) =>
      match implOut with
      | ["PANIC"] => some s!"C06 format-panic {panicClass o total}"
      | ["ERR", code] =>
        if code ≠ "4" then some s!"C06 wrong-error {code}"
        else if isDefaultSizing o ∧ 42 ≤ total then some s!"C06 default-format-fails {total}"
        else none
      | [bits, hex] =>
        match natOf bits, bytesOfHex hex with
        | some n, some bytes =>
          if bytes.length ≠ 512 then some "C06 invalid-bpb length"
          else match FormatSpec.firstFailing (FormatSpec.decodeBoot bytes) (requestOf o total) n with
            | some clause => some s!"C06 invalid-bpb {clause}"
            | none => none
        | _, _ => some "C06 invalid-bpb malformed"
      | _ => some "C06 invalid-bpb malformed"
  else if fn = "format.sweepblock" then
    match args, implOut with
    | [a, b], [nfail, _] =>
      match natOf a, natOf b, natOf nfail with
      | some a, some b, some nfail =>
        if min b 42 - min a 42 < nfail then some s!"C06 default-format-fails block {a} {b}" else none
      | _, _, _ => none
    | _, _ => none
  else none

def branch (fn : String) (args : List String) : String :=
  if fn = "format.bs" then
    match parseArgs args with
    | none => "badargs"
    | some (o, total) =>
      let res := match formatBootSectorBytes o total with
        | .ok (_, ft) => s!"ok{ft.bits}"
        | .error .panic => "panic"
        | .error _ => "err"
      let bpc := if o.bpc.isSome then "bpc" else "auto"
      let req := match o.fatType with | none => "any" | some t => s!"req{t.bits}"
      s!"{res}-{bpc}-{req}-bps{o.bps}"
  else "-"

end FatVerif.FormatDriver
