import FatVerif.Model.SlotTree
import FatVerif.Model.HistMain
import FatVerif.Spec.OracleUtil
/-!
# The tie between `Model/SlotTree.lean` and the implementation (history mode, property C01)

`Props/C01tree.lean` proves that the slot-tree model refines the specification tree.  This file ties the slot-tree
model to the CODE: for every namespace call of a history (`create_file`, `create_dir`, `open_file`, `open_dir`,
`remove`, `rename`, `list`) it runs the model's executable `stepSlot` on the same call and compares

* the outcome class (ok / the error kind) with the implementation's result;
* the new slot tree with the implementation's image after the call, directory by directory: the number of slots in
  use, and for every listed entry its long-name units, its 11 raw short-name bytes (the alias `check_for_existence`
  chose — this ties `DirAlias` too), its slot range (where `find_free_entries` put it) and its kind;
* `abs` of the new slot tree (names, kinds) with the independently decoded tree of the image (`Spec.decodeTreeG`, the
  tree `oC01` compares the specification with);
* for `list`, the rows (names, kinds) as a multiset.

Raw slot bytes are NOT compared (the model ignores cluster numbers, timestamps, sizes).

The slot tree is (re-)initialised from the image (`decodeNode`: the raw slots of every directory, a subdirectory
without its two dot entries) whenever tracking starts, so remounts and foreign volumes are covered.  Tracking stops
— without a message — when something outside the model's scope happens (an injected fault, an I/O or resource
error, a panic/hang, `format`/`raw`/`mount`/`unmount`/`forget`, a handle that no longer resolves) and resumes at the
next namespace call.  Messages have the signature `corr-slot-tree` (`./check` reads `corr-*` as a broken
correspondence, not as a violation of the property).

The hypotheses of the refinement theorem about 8.3 aliases (`NoAliasHit`) and about the specification's path
splitting (`SplitAgree`) concern the SPECIFICATION side only; against the implementation the model is compared on
alias queries too.
-/
namespace FatVerif.SlotTreeOracle
open FatVerif.Spec FatVerif.SlotTree FatVerif.HistMain FatVerif.DirSlots

/-! ## image → slot tree -/

def firstClusterOf (g : Geom) (sfn : List Nat) : Nat :=
  Lfn.byte sfn 26 + 256 * Lfn.byte sfn 27 +
    (if g.fatBits = 32 then 65536 * (Lfn.byte sfn 20 + 256 * Lfn.byte sfn 21) else 0)

/-- the slots of a directory as the model sees them: up to the end marker; a subdirectory without its dot entries -/
def dirSlots (g : Geom) (img : Img) (loc : DirLoc) (isRoot : Bool) : Except String (List (List Nat)) := do
  let arr ← readDirSlots g img loc true
  let l := (arr.toList.map fun s => s.bytes.toList).takeWhile fun s => !(Lfn.isEnd s)
  if isRoot then pure l
  else match l with
    | d1 :: d2 :: rest =>
      if Lfn.sfnName d1 = dotName ∧ Lfn.sfnName d2 = dotDotName ∧ !Lfn.isLfn d1 ∧ !Lfn.isLfn d2 then pure rest
      else throw "a subdirectory does not start with its dot entries"
    | _ => throw "a subdirectory does not start with its dot entries"

def decodeNode (g : Geom) (img : Img) : Nat → DirLoc → Bool → Except String SlotTree.Node
  | 0, _, _ => throw "nested too deep"
  | fuel + 1, loc, isRoot => do
    let slots ← dirSlots g img loc isRoot
    let ch ← (listing slots).mapM fun e => do
      if Lfn.isDir e.sfn then
        let fc := firstClusterOf g e.sfn
        if !g.validCluster fc then throw "directory entry without a valid first cluster"
        let c ← decodeNode g img fuel (.chain fc) false
        pure (e, c)
      else pure (e, SlotTree.Node.file [])
    pure (.dir slots ch)

def decodeImage (g : Geom) (img : Img) : Option SlotTree.Node :=
  match decodeNode g img 40 (rootLoc g) true with
  | .ok n => some n
  | .error _ => none

/-! ## comparing two slot trees (model's, image's) -/

def usedCount (slots : List (List Nat)) : Nat := (slots.takeWhile fun s => !(Lfn.isEnd s)).length

def showUnits (us : List Nat) : String := if us.isEmpty then "-" else utf16String us
def showRaw (raw : List Nat) : String := String.ofList (raw.map fun b => if 32 ≤ b ∧ b < 127 then Char.ofNat b else '?')
def showEntry (e : LfnEntry) : String :=
  s!"'{showUnits e.units}'/'{showRaw (Lfn.sfnName e.sfn)}'@{e.beginIdx}..{e.endIdx}{if Lfn.isDir e.sfn then "/" else ""}"

/-- first difference of two listings: `(kind, detail)`, kind `alias` when only the raw short name differs -/
def diffListing (path : String) : List LfnEntry → List LfnEntry → Option (String × String)
  | [], [] => none
  | m :: _, [] => some ("tree", s!"dir '{path}': model lists {showEntry m}, the image has no further entry")
  | [], i :: _ => some ("tree", s!"dir '{path}': the image lists {showEntry i}, the model has no further entry")
  | m :: ms, i :: is =>
    if m.units = i.units ∧ m.beginIdx = i.beginIdx ∧ m.endIdx = i.endIdx ∧ Lfn.isDir m.sfn = Lfn.isDir i.sfn then
      if Lfn.sfnName m.sfn = Lfn.sfnName i.sfn then diffListing path ms is
      else some ("alias", s!"dir '{path}' entry '{showUnits m.units}': model alias '{showRaw (Lfn.sfnName m.sfn)}', image alias '{showRaw (Lfn.sfnName i.sfn)}'")
    else some ("tree", s!"dir '{path}': model {showEntry m}, image {showEntry i}")

def diffNode : Nat → String → SlotTree.Node → SlotTree.Node → Option (String × String)
  | 0, _, _, _ => none
  | _ + 1, _, .file _, .file _ => none
  | fuel + 1, path, .dir ms mch, .dir is ich =>
    let lm := listing ms
    let li := listing is
    match diffListing path lm li with
    | some d => some d
    | none =>
      if usedCount ms ≠ usedCount is then
        some ("tree", s!"dir '{path}': {usedCount ms} slots in use in the model, {usedCount is} in the image")
      else
        (lm.zip li).findSome? fun (em, ei) =>
          match mch.find? (fun x => x.1 == em), ich.find? (fun x => x.1 == ei) with
          | some (_, cm), some (_, ci) => diffNode fuel (path ++ "/" ++ showUnits em.units) cm ci
          | none, _ => some ("tree", s!"dir '{path}': the model has no child for {showEntry em}")
          | _, none => none
  | _ + 1, path, _, _ => some ("tree", s!"'{path}' is a file on one side and a directory on the other")

/-! ## `abs` against the independently decoded tree -/

def lowerPath (s : String) : String := s.map Char.toLower

/-- names (ASCII case ignored: a short-only entry is shown with its NT case flags by the library) and kinds -/
def shapeDiffFold (t : TNode) (root : Spec.Node) : Option String :=
  let a := ((flatT t).map fun (p, d, _) => (lowerPath p, d)).qsort fun x y => x.1 < y.1 || (x.1 == y.1 && !x.2 && y.2)
  let b := ((flatMeta root).map fun (p, e, _) => (lowerPath p, e.isDir)).qsort fun x y => x.1 < y.1 || (x.1 == y.1 && !x.2 && y.2)
  if a == b then none
  else match (a.zip b).find? fun (x, y) => x != y with
    | some (x, y) => some s!"abs of the model has '{x.1}'{if x.2 then "/" else ""} where the decoded image has '{y.1}'{if y.2 then "/" else ""}"
    | none => some s!"abs of the model has {a.size} entries, the decoded image {b.size}"

/-! ## one call -/

/-- what the hook in `Oracles.stepO` hands over -/
structure In where
  op : String
  args : List String
  /-- tokens after `R <seq>` -/
  res : List String
  /-- listing rows of a successful `list` -/
  rows : List String
  fault : Bool
  /-- a volume is mounted before and after the call -/
  mounted : Bool
  geom : Option Geom
  before : Img
  after : Img
  upper : Char → List Char
  /-- canonical path of a directory handle token (`d0` …) before the call -/
  dirOf : String → Option (List String)

def isNamespaceOp (op : String) : Bool :=
  ["create_file", "create_dir", "open_file", "open_dir", "remove", "rename", "list"].contains op

/-- calls after which the tree has to be read from the image again -/
def resetsTracking (op : String) : Bool :=
  ["format", "raw", "mount", "unmount", "dropfs", "forget"].contains op

def opOf (i : In) : Option Spec.Op :=
  match i.op, i.args with
  | "create_file", [d, p, _] => do pure (.createFile (← i.dirOf d) (← textOf p))
  | "create_dir", [d, p, _] => do pure (.createDir (← i.dirOf d) (← textOf p))
  | "open_file", [d, p, _] => do pure (.openFile (← i.dirOf d) (← textOf p))
  | "open_dir", [d, p, _] => do pure (.openDir (← i.dirOf d) (← textOf p))
  | "list", [d] => do pure (.list (← i.dirOf d))
  | "remove", [d, p] => do pure (.remove (← i.dirOf d) (← textOf p))
  | "rename", [d, s, d2, t] => do pure (.rename (← i.dirOf d) (← textOf s) (← i.dirOf d2) (← textOf t))
  | _, _ => none

def handlesOf : Spec.Op → List (List String)
  | .createFile c _ | .createDir c _ | .openFile c _ | .openDir c _ | .list c | .remove c _ => [c]
  | .rename c _ d _ => [c, d]

/-- outcome class of the implementation: `ok`, an error code the model can produce, or `none` (out of scope) -/
def implClass (res : List String) : Option String :=
  match res with
  | "ok" :: _ => some "ok"
  | "err" :: code :: _ => if ["4", "5", "6", "7", "10", "11"].contains code then some ("err" ++ code) else none
  | _ => none

def modelClass (r : Res) : String :=
  match r.out with
  | .ok _ => "ok"
  | .error .hang => "hang"
  | .error e => s!"err{e.code}"

def parseRow (row : String) : Option (String × Bool) :=
  match row.splitOn " " with
  | name :: _short :: attrs :: _ =>
    match (if name = "-" then some "" else textOf name), attrs.toNat? with
    | some n, some a => some (n, a / 16 % 2 == 1)
    | _, _ => none
  | _ => none

def sortRows (rows : List (String × Bool)) : List (String × Bool) :=
  (rows.toArray.qsort fun x y => x.1 < y.1 || (x.1 == y.1 && !x.2 && y.2)).toList

/-- fuel of the alias loop (`DirOps.checkForExistence` uses the same) -/
def aliasFuel : Nat := 70000

def stamp0 : List Nat := List.replicate 20 0

/-- Returns the slot tree to continue with (`none` = not tracking), the messages, and a note for statistics
    (`"compared"`, `"skip:<reason>"`, `""` = not a namespace call). -/
def step (slot : Option SlotTree.Node) (i : In) : Option SlotTree.Node × List String × String :=
  if resetsTracking i.op then (none, [], "") else
  if !isNamespaceOp i.op then (slot, [], "") else
  if !i.mounted then (none, [], "skip:not-mounted") else
  match i.geom with
  | none => (none, [], "skip:no-geometry")
  | some g =>
  if i.fault then (none, [], "skip:fault") else
  match implClass i.res with
  | none => (none, [], "skip:result-out-of-scope")
  | some ic =>
  match opOf i with
  | none => (none, [], "skip:unparsed")
  | some op =>
  let t? := match slot with
    | some t => some t
    | none => decodeImage g i.before
  match t? with
  | none => (none, [], "skip:undecodable-before")
  | some t =>
  let up := i.upper
  if (handlesOf op).any fun cwd => match getAtS up t cwd with | some (.dir _ _) => false | _ => true then
    (none, [], "skip:stale-handle") else
  let r := stepSlot up aliasFuel t op stamp0
  let tag := s!"op={i.op} res={ic}"
  let mc := modelClass r
  if mc != ic then
    (none, [s!"C01 corr-slot-tree outcome {tag} model={mc} impl={ic}"], "compared") else
  -- the rows of a listing
  let rowMsg : Option String :=
    match r.out, i.op with
    | .ok rows, "list" =>
      let got := sortRows (((i.rows.filterMap parseRow).filter fun x => !isDot x.1).map fun x => (lowerPath x.1, x.2))
      let want := sortRows (rows.map fun x => (lowerPath x.1, x.2))
      if got == want then none
      else some s!"C01 corr-slot-tree rows {tag} model={want.map (·.1)} impl={got.map (·.1)}"
    | _, _ => none
  match rowMsg with
  | some m => (none, [m], "compared")
  | none =>
  match decodeImage g i.after with
  | none => (none, [s!"C01 corr-slot-tree tree {tag} the image after the call cannot be read as a slot tree"], "compared")
  | some ti =>
  match diffNode 40 "" r.tree ti with
  | some (kind, d) => (none, [s!"C01 corr-slot-tree {kind} {tag} {d}"], "compared")
  | none =>
  match decodeTreeG g i.after false with
  | .error _ => (some r.tree, [], "compared")
  | .ok root =>
    match shapeDiffFold (abs r.tree) root with
    | some d => (none, [s!"C01 corr-slot-tree abs {tag} {d}"], "compared")
    | none => (some r.tree, [], "compared")

end FatVerif.SlotTreeOracle
