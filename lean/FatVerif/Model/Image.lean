import Std.Data.HashMap
/-! Sparse byte image (4 KiB pages), used for the shadow copy of the implementation's device, for the model's
    device store, and as the input of the executable specifications. Unwritten bytes read as 0. -/
namespace FatVerif

def pageSize : Nat := 4096

structure Img where
  size : Nat
  pages : Std.HashMap Nat ByteArray := {}

namespace Img

def empty (size : Nat) : Img := { size := size }

def zeroPage : ByteArray := ByteArray.mk (Array.replicate pageSize 0)

@[inline] def getByte (i : Img) (off : Nat) : Nat :=
  match i.pages[off / pageSize]? with
  | some p => (p.get! (off % pageSize)).toNat
  | none => 0

/-- `len` bytes starting at `off` (bytes past `size` read as 0; callers clip) -/
def read (i : Img) (off len : Nat) : List Nat :=
  (List.range len).map fun k => i.getByte (off + k)

def readBA (i : Img) (off len : Nat) : ByteArray :=
  ByteArray.mk ((Array.range len).map fun k => UInt8.ofNat (i.getByte (off + k)))

@[inline] def setByte (i : Img) (off : Nat) (v : Nat) : Img :=
  let pg := off / pageSize
  let p := (i.pages[pg]?).getD zeroPage
  { i with pages := i.pages.insert pg (p.set! (off % pageSize) (UInt8.ofNat v)) }

/-- write a byte list at `off`, page by page -/
def write (i : Img) (off : Nat) (bs : List Nat) : Img := Id.run do
  let mut pages := i.pages
  let mut cur := off
  let mut pg := off / pageSize
  let mut p := (pages[pg]?).getD zeroPage
  -- take the page out of the map so that it is updated in place
  pages := pages.erase pg
  for b in bs do
    let npg := cur / pageSize
    if npg ≠ pg then
      pages := pages.insert pg p
      pg := npg
      p := (pages[pg]?).getD zeroPage
      pages := pages.erase pg
    p := p.set! (cur % pageSize) (UInt8.ofNat b)
    cur := cur + 1
  pages := pages.insert pg p
  return { i with pages := pages }

def le16 (i : Img) (off : Nat) : Nat := i.getByte off + 256 * i.getByte (off + 1)
def le32 (i : Img) (off : Nat) : Nat :=
  i.getByte off + 256 * i.getByte (off + 1) + 65536 * i.getByte (off + 2) + 16777216 * i.getByte (off + 3)

/-- byte-wise equality on a range -/
def eqRange (a b : Img) (off len : Nat) : Bool :=
  (List.range len).all fun k => a.getByte (off + k) == b.getByte (off + k)

/-- all page indices present in either image -/
def pageKeys (a b : Img) : List Nat :=
  (a.pages.keys ++ b.pages.keys).eraseDups

/-- first differing offset between two images, if any -/
def firstDiff (a b : Img) : Option Nat :=
  (pageKeys a b).foldl (fun acc pg =>
    let base := pg * pageSize
    let d := (List.range pageSize).find? fun k => a.getByte (base + k) != b.getByte (base + k)
    match d, acc with
    | some k, some o => some (min o (base + k))
    | some k, none => some (base + k)
    | none, _ => acc) none

end Img
end FatVerif
