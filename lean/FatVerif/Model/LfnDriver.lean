import FatVerif.Model.DirAlias
import FatVerif.Model.Util
import FatVerif.Model.Basic
import FatVerif.Model.Lfn
import FatVerif.Spec.DirSpec
import FatVerif.Model.DirSlots
/-!
pure-probe driver for suite `lfn` (see /verif/ARCH.md).

Probes
* `lfn.generate <alloc 0|1> <units-hex4> <chk> => <slot-hex32,…|-> | PANIC`
  (`fatfs::verif_dir::lfn_generate`: `LfnBuffer::from_ucs2_units` → `as_ucs2_units` → `LfnEntriesGenerator` → `serialize`)
* `lfn.readdir <alloc 0|1> <root|sub> <slot-hex32,…|-> => <n> <entry;entry;…|-> <vol> | PANIC | ERR <code>`
  The slots are planted at the start of the root directory region (`root`) resp. of a cluster-chain sub-directory
  (`sub`) of a FAT12 image; the implementation's answer comes from `Dir::iter()` and the public accessors of `DirEntry`.
  `entry` = ten fields joined by `:`
    1. `short_file_name_as_bytes()` hex (`-` if empty)
    2. `attributes().bits()` decimal
    3. `is_dir()` `is_file()` as two characters `0`/`1`
    4. `len()` decimal
    5. `created()`   `y.m.d.h.mi.s.ms`
    6. `accessed()`  `y.m.d`
    7. `modified()`  `y.m.d.h.mi.s.ms`
    8. `long_file_name_as_ucs2_units()` hex4 (`-` if `None`)
    9. `file_name()` UTF-8 hex        (`-` if empty or in a build without `alloc`)
   10. `short_file_name()` UTF-8 hex  (`-` if empty or in a build without `alloc`)
  `vol` = `read_volume_label_from_root_dir_as_bytes()` as `none`/hex11 for `root`, `-` for `sub`.
* `lfn.range <alloc 0|1> <slot-hex32,…> => <begin:end,begin:end,…|->`
  `offset_range / 32` of every entry, observed through `Dir::remove` (which marks exactly that range deleted).
* `lfn.create <alloc> <root|sub> <before-slots> <name-units-hex4> <after-slots|-> => ok | ERR <code> | PANIC`
  `create_file(name)` in a planted directory; `before`/`after` = ALL slots of the directory's allocated space (64-slot
  fixed root / cluster chain) read back from the image.  The observation is in the arguments; the model answers `ok`
  iff `after = writeEntry before units sfn'` (`DirSlots.checkCreate`), and predicts `ERR 3` (`WriteZero`) exactly when
  the fixed root has no room (`findFree before n + n > 64`).  Since F23: the model also runs
  `DirAlias.checkForExistenceL` on `before`: an alias result must be the raw short name found in `after`
  (`create-alias-mismatch_<hex>` otherwise), an existing-entry result requires `after = before`, a kind mismatch `ERR 4`.
* `lfn.remove <alloc> <root|sub> <before-slots> <j> <after-slots|-> => ok | ERR <code> | PANIC`
  `remove` of the `j`-th listed entry (by its unique short name); `ok` iff `after = deleteRange before b e` for that
  entry's range (`DirSlots.checkDelete`).
-/
namespace FatVerif.LfnDriver
open FatVerif FatVerif.Util FatVerif.Lfn

def dot (l : List Nat) : String := ".".intercalate (l.map toString)

def scalarsToHex (cs : List Nat) : String :=
  hexOfBytes (utf8OfString (String.ofList (cs.map Char.ofNat)))

def showEntry (alloc : Bool) (e : LfnEntry) : String :=
  let s := e.sfn
  let (cy, cm, cd) := dateDecode (unitAt s 16)
  let (ch, cmi, cs, cms) := timeDecode (unitAt s 14) (byte s 13)
  let (ay, am, ad) := dateDecode (unitAt s 18)
  let (my, mm, md) := dateDecode (unitAt s 24)
  let (mh, mmi, ms, mms) := timeDecode (unitAt s 22) 0
  let fname :=
    if !alloc then "-"
    else match e.longName with
      | some u => scalarsToHex (utf16Lossy u)
      | none => scalarsToHex ((lowercaseNameBytes s).map oemDecode)
  let sname := if !alloc then "-" else scalarsToHex ((shortNameBytes (sfnName s)).map oemDecode)
  ":".intercalate [
    hexOfBytes (shortNameBytes (sfnName s)),
    toString (attrs s),
    showBool (isDir s) ++ showBool (!isDir s),
    toString (fileSize s),
    dot [cy, cm, cd, ch, cmi, cs, cms],
    dot [ay, am, ad],
    dot [my, mm, md, mh, mmi, ms, mms],
    (match e.longName with | some u => hexOfUnits u | none => "-"),
    fname, sname]

def showEntries (alloc : Bool) (es : List LfnEntry) : String :=
  if es.isEmpty then "-" else ";".intercalate (es.map (showEntry alloc))

def handleReaddir (alloc : Bool) (place : String) (slots : List (List Nat)) : String :=
  match readDirEntries? alloc true slots with
  | none => "PANIC"
  | some es =>
    let vol :=
      if place = "root" then
        match readVolumeLabel alloc slots with
        | none => "none"
        | some n => hexOfBytes n
      else "-"
    s!"{es.length} {showEntries alloc es} {vol}"

def showRanges (es : List LfnEntry) : String :=
  if es.isEmpty then "-" else ",".intercalate (es.map fun e => s!"{e.beginIdx}:{e.endIdx}")

/-- the part of `char::to_uppercase` (all lfn variants are built with feature `unicode`) the pure driver carries:
    ASCII and Latin-1, where the mapping is the classical one; other characters are not compared -/
def upperLatin1 (c : Char) : List Char :=
  let n := c.toNat
  if n < 128 then [Char.ofNat (Names.asciiUpper n)]
  else if n = 0xB5 then [Char.ofNat 0x39C]
  else if n = 0xDF then ['S', 'S']
  else if 0xE0 ≤ n ∧ n ≤ 0xFE ∧ n ≠ 0xF7 then [Char.ofNat (n - 32)]
  else if n = 0xFF then [Char.ofNat 0x178]
  else [c]

/-- units on which `upperLatin1` is `char::to_uppercase` and into whose images no other supported character maps -/
def upperSupported (u : Nat) : Bool := u < 0x100 || u == 0xFFFD || u == 0xFFFF

/-- `check_for_existence(name, Some(false))` of the model on the planted directory; `none` = not comparable -/
def createExistence (before : List (List Nat)) (units : List Nat) :
    Option (Except Err DirAlias.EntryOrAlias) :=
  let listed := DirSlots.listing before
  if units.all upperSupported && listed.all (fun e => e.units.all upperSupported) then
    some (DirAlias.checkForExistenceL upperLatin1 before (String.ofList (units.map Char.ofNat)) (some false) 70000)
  else none

def handle (fn : String) (args : List String) : Option String :=
  match fn, args with
  | "lfn.generate", [a, u, c] => do
    let alloc ← boolOf a
    let units ← unitsOfHex u
    let chk ← natOf c
    match lfnGenerateVia alloc units chk with
    | none => some "PANIC"
    | some slots => some (hexOfBytesList slots)
  | "lfn.readdir", [a, place, sl] => do
    let alloc ← boolOf a
    let slots ← bytesListOfHex sl
    some (handleReaddir alloc place slots)
  | "lfn.range", [a, sl] => do
    let alloc ← boolOf a
    let slots ← bytesListOfHex sl
    match readDirEntries? alloc true slots with
    | none => some "PANIC"
    | some es => some (showRanges es)
  | "lfn.create", [_a, place, bs, u, as] => do
    let before ← bytesListOfHex bs
    let units ← unitsOfHex u
    let num := if DirSlots.isDotUnits units then 1 else numParts units.length + 1
    let p := DirSlots.findFree before num
    -- the directory-level alias choice (`DirAlias.checkForExistenceL`, theorems in Props/C16dir.lean) on the same
    -- slots; `none` = a character outside the part of `char::to_uppercase` this driver carries (comparison skipped)
    let existence := createExistence before units
    if as = "-" then
      some (match existence with
        | some (.error .invalidInput) => "ERR 4"
        | _ => if place = "root" ∧ p + num > before.length then "ERR 3" else "ok")
    else do
      let after ← bytesListOfHex as
      match existence with
      | some (.ok (.entry _)) =>
        -- the name is taken: `create_file` opens the existing entry and writes nothing
        some (if after = before then "ok" else "create-existing-entry-but-slots-changed")
      | some (.error e) => some s!"create-model-err-{e.code}"
      | ex =>
        let sfn11 := sfnName (after.getD (p + num - 1) [])
        match DirSlots.checkCreate before after units sfn11 with
        | some msg => some ("create-" ++ msg.replace " " "_")
        | none =>
          match ex with
          | some (.ok (.alias a)) =>
            some (if a = sfn11 then "ok" else "create-alias-mismatch_" ++ hexOfBytes a)
          | _ => some "ok"
  | "lfn.remove", [_a, _place, bs, j, as] => do
    let before ← bytesListOfHex bs
    let j ← natOf j
    if as = "-" then some "ok" else do
      let after ← bytesListOfHex as
      match (DirSlots.listing before)[j]? with
      | none => some "no-such-entry"
      | some e =>
        match DirSlots.checkDelete before after e.beginIdx e.endIdx with
        | none => some "ok"
        | some msg => some ("delete-" ++ msg.replace " " "_")
  | _, _ => none

/-! ### oracles on the implementation's output -/

/-- field 8 (long units) of every entry token; `none` if the output is not well formed -/
def implNames (entries : String) : Option (List (List Nat)) :=
  if entries = "-" then some [] else
  (entries.splitOn ";").mapM fun tok =>
    match tok.splitOn ":" with
    | [_, _, _, _, _, _, _, u, _, _] => unitsOfHex u
    | _ => none

inductive Verdict where
  | ok | tooLong | foreign | ignored | ffffLost
  deriving DecidableEq

def Verdict.rank : Verdict → Nat
  | .ok => 0 | .ffffLost => 1 | .ignored => 2 | .foreign => 3 | .tooLong => 4

/-- verdict on one returned long name `l` (`[]` = none returned) against the specification's entry -/
def judge (l : List Nat) (e : DirSpec.SpecEntry) : Verdict :=
  match e.run with
  | none => if l.isEmpty then .ok else .foreign
  | some r =>
    let specName := DirSpec.nameOf r
    let oldConv := DirSpec.dropTrailingPads r
    if l = specName then
      -- F17 signature: a complete run honoured although more than 255 units remain
      if l.length > 255 then .tooLong else .ok
    else if l = oldConv then
      -- F12 signature: every trailing 0x0000/0xFFFF unit stripped, so a legitimately trailing U+FFFF is lost
      -- (with malformed padding the old convention returns units beyond the terminator: not the run's name)
      if DirSpec.wellPadded r ∧ specName.length ≤ 255 then .ffffLost else .foreign
    else if l.isEmpty then
      -- no long name for a complete run: correct iff its name is empty or exceeds 255 units (the reader's cap)
      if specName.isEmpty ∨ specName.length > 255 then .ok else .ignored
    -- F18 signature: units that are not the run's
    else .foreign

def worst (vs : List (Nat × Verdict)) : Option (Nat × Verdict) :=
  vs.foldl (fun acc v =>
    match acc with
    | none => if v.2 = .ok then none else some v
    | some a => if v.2.rank > a.2.rank then some v else some a) none

def oracleReaddir (slots : List (List Nat)) (implOut : List String) : Option String :=
  match implOut with
  | ["PANIC"] => some "C17 diriter-panic -"
  | "ERR" :: c :: _ => some s!"C17 diriter-error code={c}"
  | [n, entries, _vol] =>
    match implNames entries with
    | none => some "C17 malformed-output -"
    | some names =>
      let spec := DirSpec.specEntries true slots
      if names.length ≠ spec.length ∨ toString names.length ≠ n then
        some s!"C17 entry-count impl={names.length} spec={spec.length}"
      else
        let vs := (List.range names.length).map fun i =>
          (i, match names[i]?, spec[i]? with
              | some l, some e => judge l e
              | _, _ => Verdict.ok)
        match worst vs with
        | none => none
        | some (i, .tooLong) => some s!"C17 name-too-long entry={i} units={(names.getD i []).length}"
        | some (i, .foreign) => some s!"C17 foreign-or-partial-name entry={i} units={(names.getD i []).length}"
        | some (i, .ignored) => some s!"C17 valid-run-ignored entry={i}"
        | some (i, .ffffLost) => some s!"C15 trailing-ffff-lost entry={i}"
        | some (_, .ok) => none
  | _ => some "C17 malformed-output -"

/-- C03.4 on the implementation's slots: they parse (by the specification's backward scan) as one complete set
    carrying `chk` whose name is the input -/
def oracleGenerate (units : List Nat) (chk : Nat) (implOut : List String) : Option String :=
  match implOut with
  | ["PANIC"] => if units.length ≤ 260 then some "C19 generate-panic -" else none
  | [sl] =>
    match bytesListOfHex sl with
    | none => some "C03 malformed-output -"
    | some slots =>
      if units.isEmpty then (if slots.isEmpty then none else some "C03 lfn-run-malformed nonempty-for-empty-name")
      else if units.length > 255 ∨ units.any (· == 0) then none
      else if slots.any (fun s => s.length ≠ 32 ∨ DirSpec.b s 11 ≠ 0x0F ∨ DirSpec.b s 12 ≠ 0 ∨ DirSpec.w s 26 ≠ 0) then
        some "C03 lfn-run-malformed fixed-fields"
      else
        match DirSpec.specRun chk slots.reverse 1 [] with
        | none => some "C03 lfn-run-malformed incomplete"
        | some r =>
          if DirSpec.nameOf r = units ∧ DirSpec.wellPadded r ∧ r.length = 13 * slots.length then none
          else some "C03 lfn-run-malformed name"
  | _ => some "C03 malformed-output -"

def oracle (fn : String) (args : List String) (implOut : List String) : Option String :=
  match fn, args with
  | "lfn.readdir", [_, _, sl] =>
    match bytesListOfHex sl with
    | some slots => oracleReaddir slots implOut
    | none => none
  | "lfn.generate", [_, u, c] =>
    match unitsOfHex u, natOf c with
    | some units, some chk => oracleGenerate units chk implOut
    | _, _ => none
  | "lfn.range", _ =>
    match implOut with
    | ["PANIC"] => some "C17 diriter-panic range"
    | _ => none
  | _, _ => none

def branch (fn : String) (args : List String) : String :=
  match fn, args with
  | "lfn.generate", [a, u, _] =>
    match unitsOfHex u with
    | some units =>
      let n := units.length
      s!"a{a}/" ++ (if n = 0 then "empty" else if n % 13 = 0 then "full" else "padded") ++
        (if n > 255 then "/over255" else "")
    | none => "-"
  | "lfn.readdir", [a, place, sl] =>
    match boolOf a, bytesListOfHex sl with
    | some alloc, some slots =>
      let es := readDirEntries alloc true slots
      let anyLong := es.any fun e => !e.units.isEmpty
      let anyLfn := slots.any fun s => slotClass s == .lfn
      let noEnd := (slots.all fun s => slotClass s != .endMark) &&
        (if place = "root" then slots.length == 64 else slots.length % 16 == 0 && slots.length > 0)
      s!"a{a}/{place}/" ++ (if anyLong then "long" else if anyLfn then "fallback" else "plain") ++
        (if noEnd then "/eof" else "/endmark") ++ (if cleanStarts false slots then "/clean" else "/restart")
    | _, _ => "-"
  | "lfn.range", [a, _] => s!"a{a}"
  | "lfn.create", [a, place, bs, u, as] =>
    match bytesListOfHex bs, unitsOfHex u with
    | some before, some units =>
      let num := numParts units.length + 1
      let p := DirSlots.findFree before num
      let endIdx := (before.findIdx? fun s => isEnd s).getD before.length
      s!"a{a}/{place}/" ++ (if as = "-" then "fail" else if p + num ≤ endIdx then "reclaimed"
        else if p < endIdx then "trailing-run-quirk" else if p + num ≤ before.length then "at-end-marker" else "grow")
    | _, _ => "-"
  | "lfn.remove", [a, place, _, _, _] => s!"a{a}/{place}"
  | _, _ => "-"

end FatVerif.LfnDriver
