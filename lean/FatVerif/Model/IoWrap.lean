import FatVerif.Model.Util
/-!
`io.rs` as a storage adapter: what `StdIoWrapper` (and any other implementation of the crate's `Read`/`Write`/`Seek`
over a `std::io` object) does with the answers of the underlying device. Pure-probe suite `io`
(harness/src/pure_io.rs), properties C09 and C14.

```
P io.run mode=<std|own> <script> <ops> => <res;res;…> <call;call;…>
P io.conv <kind>                      => <is_interrupted 0|1>
P io.new <eof|wz>                     => <kind>
```

Model = what `io.rs` documents:
* `read`, `write`, `flush`, `seek` pass the call through and return the device's answer unchanged — in particular
  `flush` reports EVERY error of the device, `Interrupted` included (nothing is retried, nothing is swallowed);
* `read_exact` repeats `read` on the unfilled rest: a device answer `Interrupted` is retried, any other error is
  returned, a read of 0 bytes ends the loop with `UnexpectedEof`; an empty buffer makes no device call;
* `write_all` repeats `write` on the unwritten rest: `Interrupted` is retried, any other error is returned, a write
  of 0 bytes is `WriteZero`; an empty buffer makes no device call;
* `is_interrupted` holds for the kind `Interrupted` only; the two constructors make `UnexpectedEof` / `WriteZero`.

The scripted device: one answer per device call (`n<k>` count / position, `e<kind>` error); when the script is used up
a read delivers nothing, a write accepts everything, flush succeeds, seek answers 0. The i-th delivered byte is
`1 + i % 251`.
-/
namespace FatVerif.IoWrap
open FatVerif.Util

inductive Ans where
  | n (k : Nat)
  | e (c : String)
  deriving Repr, DecidableEq

structure Mock where
  script : List Ans
  delivered : Nat := 0
  /-- calls seen, newest first -/
  calls : List String := []

inductive Res where
  | bytes (bs : List Nat)
  | count (n : Nat)
  | unit
  | err (c : String)
  deriving Repr, DecidableEq

def Res.show : Res → String
  | .bytes bs => "ok:" ++ hexOfBytes bs
  | .count n => s!"ok:{n}"
  | .unit => "ok"
  | .err c => "E" ++ c

def Res.isErr : Res → Bool
  | .err _ => true
  | _ => false

def dropStr (s : String) (n : Nat) : String := String.ofList (s.toList.drop n)

def parseAns (t : String) : Option Ans :=
  if t.startsWith "n" then (dropStr t 1).toNat?.map .n
  else if t.startsWith "e" && t.length == 2 then some (.e (dropStr t 1))
  else none

def parseList {α} (f : String → Option α) (s : String) : Option (List α) :=
  if s == "-" then some [] else (s.splitOn ";").mapM f

/-- one device call: log it, take the next answer -/
def Mock.call (m : Mock) (tok : String) : Option Ans × Mock :=
  match m.script with
  | [] => (none, { m with calls := tok :: m.calls })
  | a :: rest => (some a, { m with script := rest, calls := tok :: m.calls })

def pattern (start n : Nat) : List Nat := (List.range n).map fun i => 1 + (start + i) % 251

/-- device `read` with a buffer of `len` bytes: the bytes delivered, or the error -/
def devRead (m : Mock) (len : Nat) : Except String (List Nat) × Mock :=
  match m.call s!"r{len}" with
  | (some (.e c), m') => (.error c, m')
  | (some (.n k), m') =>
    let n := min k len
    (.ok (pattern m'.delivered n), { m' with delivered := m'.delivered + n })
  | (none, m') => (.ok [], m')

/-- device `write`: the number of bytes accepted, or the error -/
def devWrite (m : Mock) (buf : List Nat) : Except String Nat × Mock :=
  match m.call ("w" ++ hexOfBytes buf) with
  | (some (.e c), m') => (.error c, m')
  | (some (.n k), m') => (.ok (min k buf.length), m')
  | (none, m') => (.ok buf.length, m')

def devFlush (m : Mock) : Except String Unit × Mock :=
  match m.call "f" with
  | (some (.e c), m') => (.error c, m')
  | (_, m') => (.ok (), m')

def devSeek (m : Mock) (tok : String) : Except String Nat × Mock :=
  match m.call tok with
  | (some (.e c), m') => (.error c, m')
  | (some (.n k), m') => (.ok k, m')
  | (none, m') => (.ok 0, m')

/-- `read_exact`; fuel bounds the number of device calls (every call uses up a script entry, delivers bytes, or is the
    last one) -/
def readExactLoop : Nat → Mock → Nat → List Nat → Res × Mock
  | 0, m, _, _ => (.err "hang", m)
  | fuel + 1, m, rest, acc =>
    if rest = 0 then (.bytes acc, m) else
    match devRead m rest with
    | (.error c, m') => if c == "i" then readExactLoop fuel m' rest acc else (.err c, m')
    | (.ok bs, m') =>
      if bs.isEmpty then (.err "u", m')
      else readExactLoop fuel m' (rest - bs.length) (acc ++ bs)

def readExact (m : Mock) (n : Nat) : Res × Mock :=
  readExactLoop (m.script.length + n + 2) m n []

/-- `write_all` -/
def writeAllLoop : Nat → Mock → List Nat → Res × Mock
  | 0, m, _ => (.err "hang", m)
  | fuel + 1, m, buf =>
    if buf.isEmpty then (.unit, m) else
    match devWrite m buf with
    | (.error c, m') => if c == "i" then writeAllLoop fuel m' buf else (.err c, m')
    | (.ok k, m') =>
      if k = 0 then (.err "z", m') else writeAllLoop fuel m' (buf.drop k)

def writeAll (m : Mock) (buf : List Nat) : Res × Mock :=
  writeAllLoop (m.script.length + buf.length + 2) m buf

inductive Op where
  | read (n : Nat)
  | readExact (n : Nat)
  | write (bs : List Nat)
  | writeAll (bs : List Nat)
  | flush
  | seek (tok : String)
  deriving Repr

def parseOp (t : String) : Option Op :=
  if t == "f" then some .flush
  else if t.startsWith "ss" || t.startsWith "sc" || t.startsWith "se" then
    match (dropStr t 2).toInt? with
    | some _ => some (.seek t)
    | none => none
  else if t.startsWith "r" then (dropStr t 1).toNat?.map .read
  else if t.startsWith "R" then (dropStr t 1).toNat?.map .readExact
  else if t.startsWith "w" then (bytesOfHex (dropStr t 1)).map .write
  else if t.startsWith "W" then (bytesOfHex (dropStr t 1)).map .writeAll
  else none

def step (m : Mock) : Op → Res × Mock
  | .read n =>
    match devRead m n with
    | (.ok bs, m') => (.bytes bs, m')
    | (.error c, m') => (.err c, m')
  | .readExact n => readExact m n
  | .write bs =>
    match devWrite m bs with
    | (.ok k, m') => (.count k, m')
    | (.error c, m') => (.err c, m')
  | .writeAll bs => writeAll m bs
  | .flush =>
    match devFlush m with
    | (.ok (), m') => (.unit, m')
    | (.error c, m') => (.err c, m')
  | .seek tok =>
    match devSeek m tok with
    | (.ok k, m') => (.count k, m')
    | (.error c, m') => (.err c, m')

def runOps (m : Mock) : List Op → List Res → List Res × Mock
  | [], acc => (acc.reverse, m)
  | o :: rest, acc =>
    let (r, m') := step m o
    runOps m' rest (r :: acc)

def joinOr (l : List String) : String := if l.isEmpty then "-" else ";".intercalate l

def runLine (script ops : String) : Option (List Op × List Res × List String) := do
  let sc ← parseList parseAns script
  let os ← parseList parseOp ops
  let (rs, m) := runOps { script := sc } os []
  pure (os, rs, m.calls.reverse)

def handle (fn : String) (args : List String) : Option String :=
  match fn, args with
  | "io.conv", [k] => some (if k == "i" then "1" else "0")
  | "io.new", ["eof"] => some "u"
  | "io.new", ["wz"] => some "z"
  | "io.run", [_, script, ops] =>
    match runLine script ops with
    | some (_, rs, calls) => some (joinOr (rs.map Res.show) ++ " " ++ joinOr calls)
    | none => some "MODEL-BADARG"
  | _, _ => none

/-- first operation whose device error the implementation turned into a success -/
def firstSwallowed : List Op → List Res → List String → Nat → Option String
  | o :: os, r :: rs, t :: ts, k =>
    if r.isErr && t.startsWith "ok" then
      match o with
      | .flush => some s!"C14 flush-error-swallowed op-{k} device answered {r.show}, caller got {t}"
      | _ => some s!"C09 io-error-not-propagated op-{k} model {r.show}, caller got {t}"
    else firstSwallowed os rs ts (k + 1)
  | _, _, _, _ => none

def oracle (fn : String) (args : List String) (implOut : List String) : Option String :=
  match fn, args, implOut with
  | "io.run", [_, script, ops], res :: _ =>
    if res == "PANIC" then some "C09 panic io-adapter" else
    match runLine script ops with
    | some (os, rs, _) => firstSwallowed os rs (if res == "-" then [] else res.splitOn ";") 0
    | none => none
  | "io.conv", [k], [v] => if k != "i" && v == "1" then some s!"C09 is-interrupted-too-wide kind={k}" else none
  | _, _, _ => none

def branch (fn : String) (args : List String) : String :=
  match fn, args with
  | "io.run", [mode, script, ops] =>
    let first := (ops.toList.take 1)
    let kind := String.ofList first
    let intr := if (script.splitOn ";").contains "ei" then "/intr" else ""
    let errs := if (script.splitOn ";").any (fun t => t.startsWith "e" && t != "ei") then "/err" else ""
    if script == "-" then s!"triv/{mode}/{kind}" else s!"{mode}/{kind}{intr}{errs}"
  | _, _ => fn

end FatVerif.IoWrap
