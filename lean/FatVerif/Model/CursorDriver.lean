import FatVerif.Model.Util
import FatVerif.Model.Basic
import FatVerif.Model.AFile
import FatVerif.Spec.ByteFile
/-!
pure-probe driver for suite `cursor` (property C02).

```
P cursor.hist  cs=<n> fat=<12|16|32> free=<n> <op;op;…>            => <res;res;…>
P cursor.multi cs=<n> fat=<12|16|32> free=<n> files=<k> <i:op;i:op;…> => <res;res;…>
```

ops: `r<n>` one `read` call with an `n`-byte buffer · `R<n>` `read_exact` · `w<data>` one `write` call · `W<data>`
`write_all` · `ss<n>` / `sc<int>` / `se<int>` seek from start / current / end · `t` truncate · `f` flush ·
`x` reopen (drop the handle, read the whole file back through a temporary handle, `open_file` again).
`<data>` is hex (`-` = empty) or `*<n>*<seed>`: the `n` bytes `patternByte seed i`.

results: bytes are hex (`-` = empty) when at most 32 bytes, else `#<len>.<fnv1a-64 of the bytes, hex>`; a write gives
the count; a seek the new position; `t`/`f`/`W` give `ok`; `x` gives `=<bytes>`; an error is `E<code>`, for the loops
`R`/`W` `E<code>@<position afterwards>`; a panic is `E100` and ends the history.

`free` is the number of free clusters of the volume once the files exist; the model's allocator fails exactly when
that many clusters are in use.

Model side: one `AFile` per file, all sharing one `CounterAlloc`.  Each model file carries its own copy of the data
region; `Props/C02.lean` (`file_frame`, `two_files_refinement`) proves that this is what a shared data region with
disjoint chains amounts to.

Oracle (`ByteFile.check` per file, on the IMPLEMENTATION's results only): signatures `C02 read-wrong-bytes`,
`C02 read-too-long`, `C02 read-short-rule` (a single read neither stopped at the cluster boundary/EOF nor filled the
buffer), `C02 write-count`, `C02 seek-result`, `C02 truncate-content` (content read back after a truncate differs
from `take pos`), `C02 panic`, `C02 result-shape`.
-/
namespace FatVerif.CursorDriver
open FatVerif.Util FatVerif.Cursor

def patternByte (seed i : Nat) : Nat :=
  (seed + i + i / 256 * 37 + i / 65536 * 101) % 256

def fnv1a (bs : List Nat) : UInt64 :=
  bs.foldl (fun h b => (h ^^^ UInt64.ofNat b) * 0x100000001b3) 0xcbf29ce484222325

def hex64 (h : UInt64) : String :=
  String.ofList ((List.range 16).map fun i => hexDigit ((h.toNat >>> (4 * (15 - i))) % 16))

/-- result token for a byte string -/
def bytesTok (bs : List Nat) : String :=
  if bs.length ≤ 32 then hexOfBytes bs else s!"#{bs.length}.{hex64 (fnv1a bs)}"

def parseData (s : String) : Option (List Nat) :=
  if s.startsWith "*" then
    match s.splitOn "*" with
    | [_, n, seed] =>
      match n.toNat?, seed.toNat? with
      | some n, some seed => some ((List.range n).map (patternByte seed))
      | _, _ => none
    | _ => none
  else bytesOfHex s

def dropStr (s : String) (n : Nat) : String := String.ofList (s.toList.drop n)

def parseOp (s : String) : Option FileOp :=
  match s.toList with
  | ['t'] => some .truncate
  | ['f'] => some .flush
  | ['x'] => some .reopen
  | 'r' :: _ => (dropStr s 1).toNat?.map .read
  | 'R' :: _ => (dropStr s 1).toNat?.map .readExact
  | 'w' :: _ => (parseData (dropStr s 1)).map .write
  | 'W' :: _ => (parseData (dropStr s 1)).map .writeAll
  | 's' :: 's' :: _ => (dropStr s 2).toNat?.map fun n => .seek (.start n)
  | 's' :: 'c' :: _ => (dropStr s 2).toInt?.map fun d => .seek (.current d)
  | 's' :: 'e' :: _ => (dropStr s 2).toInt?.map fun d => .seek (.fromEnd d)
  | _ => none

/-- `i:op` -/
def parseIdxOp (s : String) : Option (Nat × FileOp) :=
  match s.splitOn ":" with
  | [i, o] =>
    match i.toNat?, parseOp o with
    | some i, some o => some (i, o)
    | _, _ => none
  | _ => none

def resTok (op : FileOp) : FileRes → String
  | .bytes l => (if op = .reopen then "=" else "") ++ bytesTok l
  | .count n => toString n
  | .pos n => toString n
  | .unit => "ok"
  | .err e => s!"E{e.code}"
  | .errAt e p => s!"E{e.code}@{p}"

def isPanic : FileRes → Bool
  | .err .panic => true
  | .errAt .panic _ => true
  | _ => false

/-! ### the model side -/

/-- run a history of `(file index, op)` on `k` model files sharing one allocator; stops after a panic -/
def runModel : List (Nat × FileOp) → List AFile → CounterAlloc → List String → List String
  | [], _, _, acc => acc.reverse
  | (i, op) :: rest, files, s, acc =>
    match files[i]? with
    | none => (("?" :: acc).reverse)
    | some f =>
      let r := AFile.step counterAllocator op f s
      if isPanic r.1 then ((resTok op r.1) :: acc).reverse
      else runModel rest (files.set i r.2.1) r.2.2 (resTok op r.1 :: acc)

def freshFiles (cs k : Nat) : List AFile :=
  (List.range k).map fun _ => AFile.empty cs (fun _ _ => 0) 0

structure Line where
  cs : Nat
  free : Nat
  files : Nat
  ops : List (Nat × FileOp)

def parseLine (fn : String) (args : List String) : Option Line := do
  let cs ← (kv args "cs").bind natOf
  let free ← (kv args "free").bind natOf
  let opsTok ← args.getLast?
  if cs = 0 then none
  if fn = "cursor.hist" then
    let ops ← (opsTok.splitOn ";").mapM parseOp
    some { cs := cs, free := free, files := 1, ops := ops.map fun o => (0, o) }
  else if fn = "cursor.multi" then
    let k ← (kv args "files").bind natOf
    let ops ← (opsTok.splitOn ";").mapM parseIdxOp
    some { cs := cs, free := free, files := k, ops := ops }
  else none

def handle (fn : String) (args : List String) : Option String :=
  if fn = "cursor.hist" ∨ fn = "cursor.multi" then
    match parseLine fn args with
    | none => some "?parse"
    | some ln =>
      some (";".intercalate (runModel ln.ops (freshFiles ln.cs ln.files) { next := 2, free := ln.free } []))
  else none

/-! ### the oracle: the implementation's outputs against `ByteFile` alone -/

/-- decode a bytes token.  A hashed token carries only its length; it is decoded to the true bytes if they hash to
    it, else to a list of that length that is certainly different. -/
def decodeBytes (tok : String) (truth : Nat → List Nat) : Option (List Nat) :=
  if tok.startsWith "#" then
    match (dropStr tok 1).splitOn "." with
    | [n, _] =>
      match n.toNat? with
      | some n =>
        let c := truth n
        if c.length = n ∧ bytesTok c = tok then some c else some (List.replicate n 256)
      | none => none
    | _ => none
  else bytesOfHex tok

def parseErr (tok : String) : Option FileRes :=
  match (dropStr tok 1).splitOn "@" with
  | [c] => c.toNat?.map fun c => FileRes.err (errOf c)
  | [c, p] =>
    match c.toNat?, p.toNat? with
    | some c, some p => some (FileRes.errAt (errOf c) p)
    | _, _ => none
  | _ => none
where
  errOf (c : Nat) : Err :=
    match c with
    | 2 => .eof | 3 => .writeZero | 4 => .invalidInput | 5 => .notFound | 6 => .alreadyExists
    | 7 => .dirNotEmpty | 8 => .corrupted | 9 => .noSpace | 10 => .nameLen | 11 => .nameChar
    | 100 => .panic | 101 => .hang | _ => .io 0

def parseRes (op : FileOp) (tok : String) (b : ByteFile) : Option FileRes :=
  if tok.startsWith "E" then parseErr tok
  else
    match op with
    | .read _ | .readExact _ => (decodeBytes tok fun n => (b.read n).1).map .bytes
    | .write _ => tok.toNat?.map .count
    | .seek _ => tok.toNat?.map .pos
    | .writeAll _ | .truncate | .flush => if tok = "ok" then some .unit else none
    | .reopen =>
      if tok.startsWith "=" then
        (decodeBytes (dropStr tok 1) fun n => if b.content.length = n then b.content else List.replicate n 256).map
          .bytes
      else none

/-- per file: the specification state and whether a truncate happened since the content was last checked -/
structure OState where
  b : ByteFile
  truncated : Bool

def signature (st : OState) (sig : String) : String :=
  if sig = "content" then (if st.truncated then "truncate-content" else "read-wrong-bytes") else sig

def runOracle (cs : Nat) : List (Nat × FileOp) → List String → List OState → Nat → Option String
  | [], [], _, _ => none
  | [], _ :: _, _, k => some s!"C02 result-shape extra-results-at-{k}"
  | _ :: _, [], _, k => some s!"C02 result-shape missing-results-at-{k}"
  | (i, op) :: ops, tok :: toks, sts, k =>
    match sts[i]? with
    | none => some s!"C02 result-shape bad-file-index-at-{k}"
    | some st =>
      match parseRes op tok st.b with
      | none => some s!"C02 result-shape unparsable-at-{k}"
      | some res =>
        if isPanic res then some s!"C02 panic op-{k}"
        else
          match ByteFile.check cs op res st.b with
          | .error sig => some s!"C02 {signature st sig} op-{k}"
          | .ok b' =>
            let tr := match op with
              | .truncate => true
              | .reopen => false
              | _ => st.truncated
            runOracle cs ops toks (sts.set i { b := b', truncated := tr }) (k + 1)

def oracle (fn : String) (args : List String) (implOut : List String) : Option String :=
  if fn = "cursor.hist" ∨ fn = "cursor.multi" then
    match parseLine fn args, implOut with
    | some ln, [out] =>
      runOracle ln.cs ln.ops (out.splitOn ";")
        ((List.range ln.files).map fun _ => { b := { content := [], pos := 0 }, truncated := false }) 0
    | _, _ => some "C02 result-shape unparsable-line"
  else none

def branch (fn : String) (args : List String) : String :=
  match parseLine fn args with
  | none => "?"
  | some ln =>
    let fat := (kv args "fat").getD "?"
    let tiny := if ln.free < 64 then "/tiny" else ""
    s!"cs{ln.cs}/fat{fat}{tiny}"

end FatVerif.CursorDriver
