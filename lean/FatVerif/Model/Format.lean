import FatVerif.Model.Basic
/-!
# Model of the formatting sizing logic (`boot_sector.rs`: `estimate_fat_type` … `format_boot_sector`,
`BiosParameterBlock::validate`, and the hook `fatfs::verif::format_boot_sector_bytes`)

Transliteration with *checked* arithmetic.  Machine integers are `Nat`; every Rust operation that can panic in a
build with overflow checks and debug assertions is an explicit check that yields `.error .panic`:
`-` (underflow), `*`/`+` in `u32` (overflow), `/` (÷0), `clamp` (min > max), `debug_assert!`.
Checks that the Rust *types alone* discharge (e.g. `u32::from(u16) * 32 + u32::from(u16)` cannot overflow `u32`,
`u64::from(u32) * u64::from(u16)` cannot overflow `u64`) are omitted; lossy `as` casts are explicit `% 2^n`.
`Error::InvalidInput` is `.error .invalidInput`; `validate` reports `.error .corrupted` which the caller
(`format_volume` / the hook) maps to `InvalidInput`.

Own minimal copy of the BPB record (`FBpb`), its serialisation and `validate`; to be unified with `Model/Bpb.lean`.

Follows /repo at 6c58f9d, i.e. WITH the repairs 46e44d0 (`sectors_per_cluster_32 == 0` ⇒ `InvalidInput`; was F11),
faa778e (`validate_total_sectors` checks the region sum in `u64` first; FAT capacity computed in `u64`) and
f22ffae (FAT32: cluster count ≤ 0x0FFFFFF4, root cluster inside the volume).
-/
namespace FatVerif.Format

/-! ## checked machine arithmetic -/

def u32lim : Nat := 4294967296

def chkSub (a b : Nat) : Except Err Nat := if b ≤ a then .ok (a - b) else .error .panic
def chkAdd32 (a b : Nat) : Except Err Nat := if a + b < 4294967296 then .ok (a + b) else .error .panic
def chkMul32 (a b : Nat) : Except Err Nat := if a * b < 4294967296 then .ok (a * b) else .error .panic
def chkDiv (a b : Nat) : Except Err Nat := if b = 0 then .error .panic else .ok (a / b)

/-- `is_power_of_two` on an unsigned machine integer of at most 64 bits -/
def isPow2 (n : Nat) : Bool := (List.range 64).any fun k => n == 2 ^ k

def nextPow2Aux (n p : Nat) : Nat → Nat
  | 0 => p
  | fuel + 1 => if n ≤ p then p else nextPow2Aux n (2 * p) fuel

/-- `u64::next_power_of_two` (smallest power of two ≥ n; 1 for 0). Exact for `n ≤ 2^64`; the callers pass
    `total_bytes = u64::from(u32) * u64::from(u16) < 2^48`, so the debug overflow panic of the Rust function
    (n > 2^63) is unreachable and not modelled. -/
def nextPow2 (n : Nat) : Nat := nextPow2Aux n 1 64

/-! ## options -/

/-- mirror of `FormatVolumeOptions` -/
structure FormatOpts where
  bps : Nat := 512                    -- bytes_per_sector: u16
  totalSectors : Option Nat := none   -- only used by `format_volume` itself to pick `total_sectors`
  bpc : Option Nat := none            -- bytes_per_cluster: Option<u32>
  fatType : Option FatType := none
  rootEntries : Nat := 512            -- max_root_dir_entries: u16
  fats : Nat := 2
  media : Nat := 0xF8
  spt : Nat := 0x20
  heads : Nat := 0x40
  driveNum : Option Nat := none
  volumeId : Nat := 0x12345678
  label : Option (List Nat) := none   -- 11 bytes
  deriving DecidableEq, Repr, Inhabited

/-! ## sizing heuristics -/

def KB : Nat := 1024
def MB : Nat := 1048576
def GB : Nat := 1073741824

/-- `estimate_fat_type` -/
def estimateFatType (totalBytes : Nat) : FatType :=
  if totalBytes < 4200 * 1024 then .fat12
  else if totalBytes < 512 * 1048576 then .fat16
  else .fat32

/-- the `match fat_type { … }` of `determine_bytes_per_cluster` (value before clamping) -/
def rawBytesPerCluster (totalBytes : Nat) : FatType → Except Err Nat
  | .fat12 => .ok ((nextPow2 totalBytes / 1048576 * 512) % 4294967296)
  | .fat16 =>
    if totalBytes ≤ 16 * 1048576 then .ok 1024
    else if totalBytes ≤ 128 * 1048576 then .ok 2048
    else chkMul32 ((nextPow2 totalBytes / (64 * 1048576)) % 4294967296) 1024
  | .fat32 =>
    if totalBytes ≤ 260 * 1048576 then .ok 512
    else if totalBytes ≤ 8 * 1073741824 then .ok 4096
    else chkMul32 ((nextPow2 totalBytes / (2 * 1073741824)) % 4294967296) 1024

/-- `x.clamp(bps, 32768)` for `bps ≤ 32768` -/
def clampVal (x bps : Nat) : Nat := if x < bps then bps else if 32768 < x then 32768 else x

/-- `x.clamp(bps, 32768)` followed by `debug_assert!(is_power_of_two)` -/
def clampCluster (x bps : Nat) : Except Err Nat :=
  if 32768 < bps then .error .panic                               -- `clamp` asserts min <= max
  else if isPow2 (clampVal x bps) then .ok (clampVal x bps) else .error .panic   -- debug_assert!

/-- `determine_bytes_per_cluster` -/
def determineBytesPerCluster (totalBytes bps : Nat) (ft : Option FatType) : Except Err Nat :=
  rawBytesPerCluster totalBytes (ft.getD (estimateFatType totalBytes)) >>= fun x => clampCluster x bps

/-- `determine_sectors_per_fat`; result is `(t1 + t2 - 1) / t2 as u32` -/
def determineSectorsPerFat (total bps spc : Nat) (ft : FatType) (reserved rds fats : Nat) : Except Err Nat :=
  chkSub total reserved >>= fun a =>
  chkSub a rds >>= fun t0 =>
  -- t1 : u64 = t0 + 2*spc ; t2 : u64 = bits_per_cluster / bits + fats (no overflow by types)
  chkSub (t0 + 2 * spc + (spc * bps * 8 / ft.bits + fats)) 1 >>= fun num =>
  chkDiv num (spc * bps * 8 / ft.bits + fats) >>= fun q =>
  .ok (q % 4294967296)

def reservedFor (ft : FatType) : Nat := if ft = .fat32 then 8 else 1

def minClusters : FatType → Nat
  | .fat12 => 0 | .fat16 => 4085 | .fat32 => 65525

def maxClusters : FatType → Nat
  | .fat12 => 4084 | .fat16 => 65524 | .fat32 => 0x0FFFFFF4

/-- `total - reserved - rds - spf * fats` then `/ spc`, all checked (`try_fs_layout`) -/
def layoutClusters (total spc reserved rds fats spf : Nat) : Except Err Nat :=
  chkMul32 spf fats >>= fun allFats =>
  chkSub total reserved >>= fun a =>
  chkSub a rds >>= fun b =>
  chkSub b allFats >>= fun data =>
  chkDiv data spc

/-- the tail of `try_fs_layout` after the cluster count is known -/
def checkClusters (ft : FatType) (reserved spf cl : Nat) : Except Err (Nat × Nat) :=
  if ft ≠ FatType.fromClusters cl then .error .invalidInput
  else if cl < minClusters ft then .error .panic       -- debug_assert!
  else if maxClusters ft < cl then .error .invalidInput
  else .ok (reserved, spf)

/-- `try_fs_layout` → (reserved_sectors, sectors_per_fat) -/
def tryFsLayout (total bps spc : Nat) (ft : FatType) (rds fats : Nat) : Except Err (Nat × Nat) :=
  if total ≤ reservedFor ft + rds + 8 then .error .invalidInput
  else
    determineSectorsPerFat total bps spc ft (reservedFor ft) rds fats >>= fun spf =>
    layoutClusters total spc (reservedFor ft) rds fats spf >>= fun cl =>
    checkClusters ft (reservedFor ft) spf cl

/-- `determine_root_dir_sectors` (bps ≠ 0 here: `bytes_per_cluster / bytes_per_sector` was evaluated before) -/
def determineRootDirSectors (rootEntries bps : Nat) (ft : FatType) : Nat :=
  if ft = .fat32 then 0 else (rootEntries * 32 + bps - 1) / bps

structure FsLayout where
  fatType : FatType
  reserved : Nat
  spf : Nat
  spc : Nat
  deriving DecidableEq, Repr

/-- the `for &fat_type in allowed_fat_types` loop: an `Err` of `try_fs_layout` moves on, a panic is a panic -/
def tryTypes (total bps spc rootEntries fats : Nat) : List FatType → Except Err FsLayout
  | [] => .error .invalidInput
  | ft :: rest =>
    match tryFsLayout total bps spc ft (determineRootDirSectors rootEntries bps ft) fats with
    | .ok (reserved, spf) => .ok ⟨ft, reserved, spf, spc⟩
    | .error .panic => .error .panic
    | .error _ => tryTypes total bps spc rootEntries fats rest

def allowedTypes : Option FatType → List FatType
  | none => [.fat32, .fat16, .fat12]
  | some t => [t]

/-- cluster size used: the option, or the heuristic -/
def effectiveBpc (o : FormatOpts) (total : Nat) : Except Err Nat :=
  match o.bpc with
  | some c => .ok c
  | none => determineBytesPerCluster (total * o.bps) o.bps o.fatType

/-- `determine_fs_layout` -/
def determineFsLayout (o : FormatOpts) (total : Nat) : Except Err FsLayout :=
  effectiveBpc o total >>= fun bpc =>
  chkDiv bpc o.bps >>= fun spc32 =>
  if spc32 = 0 then .error .invalidInput        -- "Cluster size cannot be smaller than sector size" (fix of F11)
  else if 255 < spc32 then .error .invalidInput -- u8::try_from
  else tryTypes total o.bps spc32 o.rootEntries o.fats (allowedTypes o.fatType)

/-! ## BPB -/

/-- the fields of `BiosParameterBlock` -/
structure FBpb where
  bps : Nat
  spc : Nat
  reserved : Nat
  fats : Nat
  rootEntries : Nat
  totalSectors16 : Nat
  media : Nat
  spf16 : Nat
  spt : Nat
  heads : Nat
  hidden : Nat
  totalSectors32 : Nat
  spf32 : Nat
  extFlags : Nat
  fsVersion : Nat
  rootCluster : Nat
  fsInfoSector : Nat
  backupBoot : Nat
  reserved0 : List Nat
  driveNum : Nat
  reserved1 : Nat
  extSig : Nat
  volumeId : Nat
  label : List Nat
  fsTypeLabel : List Nat
  deriving DecidableEq, Repr

def FBpb.isFat32 (b : FBpb) : Bool := b.spf16 == 0
def FBpb.sectorsPerFat (b : FBpb) : Nat := if b.isFat32 then b.spf32 else b.spf16
def FBpb.totalSectors (b : FBpb) : Nat := if b.totalSectors16 = 0 then b.totalSectors32 else b.totalSectors16
/-- `root_dir_sectors` (u32 arithmetic, no overflow by types) -/
def FBpb.rootDirSectors (b : FBpb) : Nat := (b.rootEntries * 32 + b.bps - 1) / b.bps

/-- `first_data_sector` (checked `u32` `*` and `+`) -/
def FBpb.firstDataSector (b : FBpb) : Except Err Nat :=
  chkMul32 b.fats b.sectorsPerFat >>= fun fatSectors =>
  chkAdd32 b.reserved fatSectors >>= fun x =>
  chkAdd32 x b.rootDirSectors

/-- `total_clusters` -/
def FBpb.totalClusters (b : FBpb) : Except Err Nat :=
  b.firstDataSector >>= fun fds =>
  chkSub b.totalSectors fds >>= fun data =>
  chkDiv data b.spc

def fsTypeLabelOf : FatType → List Nat
  | .fat12 => [0x46, 0x41, 0x54, 0x31, 0x32, 0x20, 0x20, 0x20]
  | .fat16 => [0x46, 0x41, 0x54, 0x31, 0x36, 0x20, 0x20, 0x20]
  | .fat32 => [0x46, 0x41, 0x54, 0x33, 0x32, 0x20, 0x20, 0x20]

/-- `b"NO NAME    "` -/
def noNameLabel : List Nat := [0x4E, 0x4F, 0x20, 0x4E, 0x41, 0x4D, 0x45, 0x20, 0x20, 0x20, 0x20]

/-- the struct literal of `format_bpb` (`spf16` already converted) -/
def mkBpb (o : FormatOpts) (total : Nat) (l : FsLayout) (spf16 : Nat) : FBpb :=
  let is32 := l.fatType = .fat32
  let ts16 := if is32 then 0 else if total ≤ 65535 then total else 0
  { bps := o.bps
    spc := l.spc
    reserved := l.reserved
    fats := o.fats
    rootEntries := if is32 then 0 else o.rootEntries
    totalSectors16 := ts16
    media := o.media
    spf16 := spf16
    spt := o.spt
    heads := o.heads
    hidden := 0
    totalSectors32 := if ts16 = 0 then total else 0
    spf32 := if is32 then l.spf else 0
    extFlags := 0
    fsVersion := 0
    rootCluster := if is32 then 2 else 0
    fsInfoSector := if is32 then 1 else 0
    backupBoot := if is32 then 6 else 0
    reserved0 := List.replicate 12 0
    driveNum := o.driveNum.getD (if l.fatType = .fat12 then 0 else 0x80)
    reserved1 := 0
    extSig := 0x29
    volumeId := o.volumeId
    label := o.label.getD noNameLabel
    fsTypeLabel := fsTypeLabelOf l.fatType }

/-- `u16::try_from(layout.sectors_per_fat)` for FAT12/16, 0 for FAT32 -/
def spf16Of (l : FsLayout) : Except Err Nat :=
  if l.fatType = .fat32 then .ok 0
  else if l.spf ≤ 65535 then .ok l.spf else .error .invalidInput

/-- final check of `format_bpb` -/
def checkBpbType (b : FBpb) (ft : FatType) : Except Err (FBpb × FatType) :=
  b.totalClusters >>= fun cl =>
  if FatType.fromClusters cl ≠ ft then .error .invalidInput else .ok (b, ft)

/-- `format_bpb` -/
def formatBpb (o : FormatOpts) (total : Nat) : Except Err (FBpb × FatType) :=
  determineFsLayout o total >>= fun l =>
  spf16Of l >>= fun spf16 =>
  checkBpbType (mkBpb o total l spf16) l.fatType

/-! ## `BiosParameterBlock::validate` (errors are `CorruptedFileSystem`; warnings are not modelled) -/

def validateBytesPerSector (b : FBpb) : Except Err Unit :=
  if !isPow2 b.bps then .error .corrupted
  else if b.bps < 512 ∨ 4096 < b.bps then .error .corrupted
  else .ok ()

def validateSectorsPerCluster (b : FBpb) : Except Err Unit :=
  if !isPow2 b.spc then .error .corrupted else .ok ()

def validateReservedSectors (b : FBpb) : Except Err Unit :=
  if b.reserved < 1 then .error .corrupted
  else if b.isFat32 ∧ b.reserved ≤ b.backupBoot then .error .corrupted
  else if b.isFat32 ∧ b.reserved ≤ b.fsInfoSector then .error .corrupted
  else .ok ()

def validateFats (b : FBpb) : Except Err Unit :=
  if b.fats = 0 then .error .corrupted else .ok ()

def validateRootEntries (b : FBpb) : Except Err Unit :=
  if b.isFat32 ∧ b.rootEntries ≠ 0 then .error .corrupted
  else if ¬ b.isFat32 ∧ b.rootEntries = 0 then .error .corrupted
  else .ok ()   -- `(root_entries * 32) % bytes_per_sector` only feeds a warning; bps ≥ 512 was validated before

def validateTotalSectors (b : FBpb) : Except Err Unit :=
  if b.isFat32 ∧ b.totalSectors16 ≠ 0 then .error .corrupted
  else if b.totalSectors16 = 0 ∧ b.totalSectors32 = 0 then .error .corrupted
  else if b.totalSectors16 ≠ 0 ∧ b.totalSectors32 ≠ 0 ∧ b.totalSectors16 ≠ b.totalSectors32 then .error .corrupted
  -- `first_data_sector_64 > u32::MAX` (u64 arithmetic, cannot overflow): regions too big
  else if 4294967295 < b.reserved + b.fats * b.sectorsPerFat + b.rootDirSectors then .error .corrupted
  else
    b.firstDataSector >>= fun fds =>
    if b.totalSectors ≤ fds then .error .corrupted else .ok ()

def validateSectorsPerFat (b : FBpb) : Except Err Unit :=
  if b.isFat32 ∧ b.spf32 = 0 then .error .corrupted else .ok ()

/-- `validate_total_clusters`. The FAT-capacity comparison at its end is computed in `u64` with `saturating_sub`
    (it cannot overflow: `u32 * u16 * 8 < 2^64`) and only feeds a warning, so it is not modelled. -/
def validateTotalClusters (b : FBpb) : Except Err Unit :=
  b.totalClusters >>= fun cl =>
  if b.isFat32 ≠ (FatType.fromClusters cl == .fat32) then .error .corrupted
  else if FatType.fromClusters cl = .fat32 ∧ 0x0FFFFFF4 < cl then .error .corrupted
  else if b.isFat32 ∧ (b.rootCluster < 2 ∨ cl ≤ b.rootCluster - 2) then .error .corrupted
  else .ok ()

/-- `BiosParameterBlock::validate` -/
def validateBpb (b : FBpb) : Except Err Unit :=
  if b.fsVersion ≠ 0 then .error .corrupted
  else
    validateBytesPerSector b >>= fun _ =>
    validateSectorsPerCluster b >>= fun _ =>
    validateReservedSectors b >>= fun _ =>
    validateFats b >>= fun _ =>
    validateRootEntries b >>= fun _ =>
    validateTotalSectors b >>= fun _ =>
    validateSectorsPerFat b >>= fun _ =>
    validateTotalClusters b

/-! ## boot sector -/

structure FBoot where
  bootjmp : List Nat     -- 3
  oemName : List Nat     -- 8
  bpb : FBpb
  bootCode : List Nat    -- 448
  bootSig : List Nat     -- 2
  deriving DecidableEq, Repr

/-- the 129 bytes copied from mkfs.fat's FAT32 boot sector -/
def bootCode129 : List Nat := [
  0x0E, 0x1F, 0xBE, 0x77, 0x7C, 0xAC, 0x22, 0xC0, 0x74, 0x0B, 0x56, 0xB4, 0x0E, 0xBB, 0x07, 0x00, 0xCD, 0x10,
  0x5E, 0xEB, 0xF0, 0x32, 0xE4, 0xCD, 0x16, 0xCD, 0x19, 0xEB, 0xFE, 0x54, 0x68, 0x69, 0x73, 0x20, 0x69, 0x73,
  0x20, 0x6E, 0x6F, 0x74, 0x20, 0x61, 0x20, 0x62, 0x6F, 0x6F, 0x74, 0x61, 0x62, 0x6C, 0x65, 0x20, 0x64, 0x69,
  0x73, 0x6B, 0x2E, 0x20, 0x20, 0x50, 0x6C, 0x65, 0x61, 0x73, 0x65, 0x20, 0x69, 0x6E, 0x73, 0x65, 0x72, 0x74,
  0x20, 0x61, 0x20, 0x62, 0x6F, 0x6F, 0x74, 0x61, 0x62, 0x6C, 0x65, 0x20, 0x66, 0x6C, 0x6F, 0x70, 0x70, 0x79,
  0x20, 0x61, 0x6E, 0x64, 0x0D, 0x0A, 0x70, 0x72, 0x65, 0x73, 0x73, 0x20, 0x61, 0x6E, 0x79, 0x20, 0x6B, 0x65,
  0x79, 0x20, 0x74, 0x6F, 0x20, 0x74, 0x72, 0x79, 0x20, 0x61, 0x67, 0x61, 0x69, 0x6E, 0x20, 0x2E, 0x2E, 0x2E,
  0x20, 0x0D, 0x0A]

/-- `b"MSWIN4.1"` -/
def oemName : List Nat := [0x4D, 0x53, 0x57, 0x49, 0x4E, 0x34, 0x2E, 0x31]

/-- boot code with the message offset patched for FAT12/16 (`0x36 + 8 + 29 + 0x7c00 = 0x7C5B`) -/
def bootCodeFor (ft : FatType) : List Nat :=
  let code := bootCode129 ++ List.replicate (448 - 129) 0
  if ft = .fat32 then code else (code.set 3 0x5B).set 4 0x7C

def bootJmpFor (ft : FatType) : List Nat :=
  if ft = .fat32 then [0xEB, 0x58, 0x90] else [0xEB, 0x3C, 0x90]

/-- `format_boot_sector` -/
def formatBootSector (o : FormatOpts) (total : Nat) : Except Err (FBoot × FatType) :=
  formatBpb o total >>= fun r =>
  .ok (⟨bootJmpFor r.2, oemName, r.1, bootCodeFor r.2, [0x55, 0xAA]⟩, r.2)

/-- `BootSector::validate(strict = true)` -/
def validateBoot (boot : FBoot) : Except Err Unit :=
  if boot.bootSig ≠ [0x55, 0xAA] then .error .corrupted else validateBpb boot.bpb

/-! ## serialisation -/

def FBpb.serialize (b : FBpb) : List Nat :=
  bytesLe16 b.bps ++ [b.spc % 256] ++ bytesLe16 b.reserved ++ [b.fats % 256] ++ bytesLe16 b.rootEntries ++
  bytesLe16 b.totalSectors16 ++ [b.media % 256] ++ bytesLe16 b.spf16 ++ bytesLe16 b.spt ++ bytesLe16 b.heads ++
  bytesLe32 b.hidden ++ bytesLe32 b.totalSectors32 ++
  (if b.isFat32 then
    bytesLe32 b.spf32 ++ bytesLe16 b.extFlags ++ bytesLe16 b.fsVersion ++ bytesLe32 b.rootCluster ++
    bytesLe16 b.fsInfoSector ++ bytesLe16 b.backupBoot ++ b.reserved0
   else []) ++
  [b.driveNum % 256, b.reserved1 % 256, b.extSig % 256] ++ bytesLe32 b.volumeId ++ b.label ++ b.fsTypeLabel

/-- `BootSector::serialize` (512 bytes when the array fields have their declared lengths) -/
def FBoot.serialize (boot : FBoot) : List Nat :=
  boot.bootjmp ++ boot.oemName ++ boot.bpb.serialize ++
  (if boot.bpb.isFat32 then boot.bootCode.take 420 else boot.bootCode.take 448) ++ boot.bootSig

/-! ## the hook / the first part of `format_volume` -/

/-- `format_boot_sector` then strict `validate` (any validation error → `InvalidInput`) -/
def formatChecked (o : FormatOpts) (total : Nat) : Except Err (FBoot × FatType) :=
  formatBootSector o total >>= fun r =>
  match validateBoot r.1 with
  | .ok () => .ok r
  | .error .panic => .error .panic
  | .error _ => .error .invalidInput

/-- `fatfs::verif::format_boot_sector_bytes`: boot-sector bytes and FAT width -/
def formatBootSectorBytes (o : FormatOpts) (total : Nat) : Except Err (List Nat × FatType) :=
  formatChecked o total >>= fun r => .ok (r.1.serialize, r.2)

/-- `FormatVolumeOptions::default()` -/
def defaultOpts : FormatOpts := {}

end FatVerif.Format
