import FatVerif.Model.Basic
import FatVerif.Model.Time
/-!
# The 32-byte directory-entry codec — transliteration of `/repo/src/dir_entry.rs` (lines 1–530)

Bytes, u16 and u32 values are `Nat`s; byte strings are `List Nat`.  A record is *well formed* (`WF`) when every field
is in the range of its Rust type (and the name has 11 bytes / the LFN part has 13 units); all functions are total
and meaningful on any input, `WF` is only needed for the codec round-trip theorems.

Quirks of the code that are modelled on purpose:
* `FileAttributes::from_bits_truncate` drops the two undefined top bits of the attribute byte (`&&& 0x3F`), so a
  slot that is read and written back may differ from the original in bits 6–7 of byte 11;
* a slot is a long-name slot iff `attrs & 0x0F == 0x0F` *after* truncation, whatever the other bits say;
* `DirEntryData::deserialize` turns an `UnexpectedEof` on the first 11 bytes into an all-zero ("end") entry, but an
  EOF later in the slot is an error (`deserializeStream`);
* `ShortName::new` replaces a leading 0x05 by 0xE5 *after* assembling `base.ext` (so it looks at the assembled first
  byte), `first_cluster` ignores the high word unless the volume is FAT32, `size()` is `None` for directories,
  `DirEntryEditor::set_size` is a no-op on directories, and the editor's `set_*` latch `dirty` only on change.
-/
namespace FatVerif

def DIR_ENTRY_SIZE : Nat := 32
def DIR_ENTRY_DELETED_FLAG : Nat := 0xE5
def DIR_ENTRY_REALLY_E5_FLAG : Nat := 0x05
def SFN_SIZE : Nat := 11
def SFN_PADDING : Nat := 32
def LFN_PART_LEN : Nat := 13
def LFN_ENTRY_LAST_FLAG : Nat := 0x40

/-- `FileAttributes` bit values -/
def ATTR_READ_ONLY : Nat := 0x01
def ATTR_HIDDEN : Nat := 0x02
def ATTR_SYSTEM : Nat := 0x04
def ATTR_VOLUME_ID : Nat := 0x08
def ATTR_DIRECTORY : Nat := 0x10
def ATTR_ARCHIVE : Nat := 0x20
def ATTR_LFN : Nat := 0x0F
/-- union of all defined flags: the mask of `from_bits_truncate` -/
def ATTR_ALL : Nat := 0x3F

/-- `FileAttributes::contains` -/
def attrContains (attrs flag : Nat) : Bool := attrs &&& flag == flag

/-- `FileAttributes::from_bits_truncate` -/
def attrsTruncate (b : Nat) : Nat := b &&& 0x3F

/-- `attrs & FileAttributes::LFN == FileAttributes::LFN` -/
def attrsIsLfn (attrs : Nat) : Bool := attrs &&& 0x0F == 0x0F

/-! ## `ShortName` -/

structure ShortName where
  /-- `[u8; 12]` -/
  name : List Nat
  len : Nat
  deriving DecidableEq, Repr, Inhabited

namespace ShortName

/-- `l[0..n].iter().rposition(|x| *x != b' ').map_or(0, |p| p + 1)`: scan from the right for a non-space -/
def trimLen (l : List Nat) : Nat → Nat
  | 0 => 0
  | n + 1 => if l.getD n 32 ≠ 32 then n + 1 else trimLen l n

/-- pad with spaces to the 12-byte array -/
def pad12 (l : List Nat) : List Nat := l ++ List.replicate (12 - l.length) 32

/-- the assembled `base[.ext]` before the 0x05 rule; its length is `total_len` -/
def body (raw : List Nat) (nameLen extLen : Nat) : List Nat :=
  raw.take nameLen ++ (if extLen > 0 then 46 :: (raw.drop 8).take extLen else [])

/-- `if name[0] == 0x05 { name[0] = 0xE5 }` -/
def fixE5 (name : List Nat) : List Nat :=
  if name.getD 0 0 = 0x05 then name.set 0 0xE5 else name

/-- `ShortName::new(raw_name: &[u8; 11])` -/
def new (raw : List Nat) : ShortName :=
  let nameLen := trimLen raw 8
  let extLen := trimLen (raw.drop 8) 3
  let b := body raw nameLen extLen
  { name := fixE5 (pad12 b), len := b.length }

/-- `as_bytes` -/
def asBytes (s : ShortName) : List Nat := s.name.take s.len

/-- `LossyOemCpConverter::decode` as a code point -/
def lossyDecode (b : Nat) : Nat := if b ≤ 0x7F then b else 0xFFFD

/-- `to_string` with the lossy converter, as code points -/
def toCodepoints (s : ShortName) : List Nat := s.asBytes.map lossyDecode

/-- `char::to_ascii_uppercase` on a code point -/
def asciiUpper (c : Nat) : Nat := if 97 ≤ c ∧ c ≤ 122 then c - 32 else c

/-- `eq_ignore_case` with the lossy converter; `upper` is `char_to_uppercase` (one code point may map to several);
    `name` is the `&str` as code points -/
def eqIgnoreCase (upper : Nat → List Nat) (s : ShortName) (name : List Nat) : Bool :=
  s.toCodepoints.flatMap upper == name.flatMap upper

end ShortName

/-- the display bytes of a raw 11-byte name: `ShortName::new(raw).as_bytes()` -/
def shortDisplay (raw : List Nat) : List Nat := (ShortName.new raw).asBytes

/-! ## `DirFileEntryData` -/

structure DirFileEntryData where
  /-- `[u8; 11]` -/
  name : List Nat := List.replicate 11 0
  /-- `FileAttributes` bits -/
  attrs : Nat := 0
  reserved0 : Nat := 0
  createTime0 : Nat := 0
  createTime1 : Nat := 0
  createDate : Nat := 0
  accessDate : Nat := 0
  firstClusterHi : Nat := 0
  modifyTime : Nat := 0
  modifyDate : Nat := 0
  firstClusterLo : Nat := 0
  size : Nat := 0
  deriving DecidableEq, Repr

instance : Inhabited DirFileEntryData := ⟨{}⟩

namespace DirFileEntryData

structure WF (e : DirFileEntryData) : Prop where
  name_len : e.name.length = 11
  name_lt : ∀ b ∈ e.name, b < 256
  attrs_lt : e.attrs < 64
  reserved0_lt : e.reserved0 < 256
  createTime0_lt : e.createTime0 < 256
  createTime1_lt : e.createTime1 < 65536
  createDate_lt : e.createDate < 65536
  accessDate_lt : e.accessDate < 65536
  firstClusterHi_lt : e.firstClusterHi < 65536
  modifyTime_lt : e.modifyTime < 65536
  modifyDate_lt : e.modifyDate < 65536
  firstClusterLo_lt : e.firstClusterLo < 65536
  size_lt : e.size < 4294967296

/-- `DirFileEntryData::new` -/
def new (name : List Nat) (attrs : Nat) : DirFileEntryData := { name := name, attrs := attrs }

/-- `renamed` -/
def renamed (e : DirFileEntryData) (newName : List Nat) : DirFileEntryData := { e with name := newName }

def isDir (e : DirFileEntryData) : Bool := attrContains e.attrs ATTR_DIRECTORY
def isFile (e : DirFileEntryData) : Bool := !e.isDir
def isVolume (e : DirFileEntryData) : Bool := attrContains e.attrs ATTR_VOLUME_ID
def isDeleted (e : DirFileEntryData) : Bool := e.name.getD 0 0 == 0xE5
def isEnd (e : DirFileEntryData) : Bool := e.name.getD 0 0 == 0
def setDeleted (e : DirFileEntryData) : DirFileEntryData := { e with name := e.name.set 0 0xE5 }

/-- `reserved_0 & (1 << 3) != 0` -/
def lowercaseBasename (e : DirFileEntryData) : Bool := e.reserved0 &&& 8 != 0
/-- `reserved_0 & (1 << 4) != 0` -/
def lowercaseExt (e : DirFileEntryData) : Bool := e.reserved0 &&& 16 != 0

/-- `u8::make_ascii_lowercase` -/
def asciiLowerByte (b : Nat) : Nat := if 65 ≤ b ∧ b ≤ 90 then b + 32 else b

/-- the `name_copy` of `lowercase_name` -/
def lowercaseRaw (e : DirFileEntryData) : List Nat :=
  (if e.lowercaseBasename then (e.name.take 8).map asciiLowerByte else e.name.take 8) ++
  (if e.lowercaseExt then (e.name.drop 8).map asciiLowerByte else e.name.drop 8)

/-- `lowercase_name` (feature `alloc`) -/
def lowercaseName (e : DirFileEntryData) : ShortName := ShortName.new e.lowercaseRaw

/-- `first_cluster(fat_type)`: `(u32::from(hi) << 16) | u32::from(lo)`; `hi`, `lo` are u16, so `|` is `+` -/
def firstClusterRaw (e : DirFileEntryData) (ft : FatType) : Nat :=
  (if ft = .fat32 then e.firstClusterHi else 0) * 65536 + e.firstClusterLo

def firstCluster (e : DirFileEntryData) (ft : FatType) : Option Nat :=
  if e.firstClusterRaw ft = 0 then none else some (e.firstClusterRaw ft)

/-- `set_first_cluster(cluster: Option<u32>, fat_type)`; the high word is written only on FAT32 -/
def setFirstCluster (e : DirFileEntryData) (cluster : Option Nat) (ft : FatType) : DirFileEntryData :=
  { e with
    firstClusterHi := if ft = .fat32 then cluster.getD 0 / 65536 % 65536 else e.firstClusterHi
    firstClusterLo := cluster.getD 0 % 65536 }

/-- `size()`: `None` for directories -/
def size? (e : DirFileEntryData) : Option Nat := if e.isFile then some e.size else none

def setSize (e : DirFileEntryData) (size : Nat) : DirFileEntryData := { e with size := size }

def created (e : DirFileEntryData) : DateTime := DateTime.decode e.createDate e.createTime1 e.createTime0
def accessed (e : DirFileEntryData) : Date := Date.decode e.accessDate
def modified (e : DirFileEntryData) : DateTime := DateTime.decode e.modifyDate e.modifyTime 0

def setCreated (e : DirFileEntryData) (dt : DateTime) : DirFileEntryData :=
  { e with createDate := dt.date.encode, createTime1 := dt.time.encodeLo, createTime0 := dt.time.encodeHi }

def setAccessed (e : DirFileEntryData) (d : Date) : DirFileEntryData := { e with accessDate := d.encode }

/-- the hi-res byte of the encoded time is dropped -/
def setModified (e : DirFileEntryData) (dt : DateTime) : DirFileEntryData :=
  { e with modifyDate := dt.date.encode, modifyTime := dt.time.encodeLo }

/-- bytes 11..31 of the slot -/
def serializeTail (e : DirFileEntryData) : List Nat :=
  [e.attrs, e.reserved0, e.createTime0] ++ bytesLe16 e.createTime1 ++ bytesLe16 e.createDate ++
  bytesLe16 e.accessDate ++ bytesLe16 e.firstClusterHi ++ bytesLe16 e.modifyTime ++ bytesLe16 e.modifyDate ++
  bytesLe16 e.firstClusterLo ++ bytesLe32 e.size

/-- `DirFileEntryData::serialize` (32 bytes when the name has 11) -/
def serialize (e : DirFileEntryData) : List Nat := e.name ++ e.serializeTail

end DirFileEntryData

/-! ## `DirLfnEntryData` -/

structure DirLfnEntryData where
  order : Nat := 0
  /-- `name_0 ++ name_1 ++ name_2` (5 + 6 + 2 UCS-2 units) -/
  units : List Nat := List.replicate 13 0
  attrs : Nat := 0
  entryType : Nat := 0
  checksum : Nat := 0
  reserved0 : Nat := 0
  deriving DecidableEq, Repr

instance : Inhabited DirLfnEntryData := ⟨{}⟩

namespace DirLfnEntryData

structure WF (l : DirLfnEntryData) : Prop where
  order_lt : l.order < 256
  units_len : l.units.length = 13
  units_lt : ∀ u ∈ l.units, u < 65536
  attrs_lt : l.attrs < 64
  entryType_lt : l.entryType < 256
  checksum_lt : l.checksum < 256
  reserved0_lt : l.reserved0 < 65536

/-- `DirLfnEntryData::new` -/
def new (order checksum : Nat) : DirLfnEntryData := { order := order, checksum := checksum, attrs := ATTR_LFN }

/-- `copy_name_from_slice(&[u16; 13])` -/
def copyNameFromSlice (l : DirLfnEntryData) (part : List Nat) : DirLfnEntryData := { l with units := part }

/-- `copy_name_to_slice` -/
def copyNameToSlice (l : DirLfnEntryData) : List Nat := l.units

def name0 (l : DirLfnEntryData) : List Nat := l.units.take 5
def name1 (l : DirLfnEntryData) : List Nat := (l.units.drop 5).take 6
def name2 (l : DirLfnEntryData) : List Nat := (l.units.drop 11).take 2

def isDeleted (l : DirLfnEntryData) : Bool := l.order == 0xE5
def isEnd (l : DirLfnEntryData) : Bool := l.order == 0
def setDeleted (l : DirLfnEntryData) : DirLfnEntryData := { l with order := 0xE5 }

/-- `DirLfnEntryData::serialize` -/
def serialize (l : DirLfnEntryData) : List Nat :=
  [l.order] ++ l.name0.flatMap bytesLe16 ++ [l.attrs, l.entryType, l.checksum] ++ l.name1.flatMap bytesLe16 ++
  bytesLe16 l.reserved0 ++ l.name2.flatMap bytesLe16

end DirLfnEntryData

/-! ## `DirEntryData` -/

inductive DirEntryData where
  | file (f : DirFileEntryData)
  | lfn (l : DirLfnEntryData)
  deriving DecidableEq, Repr

instance : Inhabited DirEntryData := ⟨.file {}⟩

namespace DirEntryData

def serialize : DirEntryData → List Nat
  | .file f => f.serialize
  | .lfn l => l.serialize

def isDeleted : DirEntryData → Bool
  | .file f => f.isDeleted
  | .lfn l => l.isDeleted

def isEnd : DirEntryData → Bool
  | .file f => f.isEnd
  | .lfn l => l.isEnd

def setDeleted : DirEntryData → DirEntryData
  | .file f => .file f.setDeleted
  | .lfn l => .lfn l.setDeleted

def u8At (bs : List Nat) (i : Nat) : Nat := bs.getD i 0
def u16At (bs : List Nat) (i : Nat) : Nat := le16 (bs.getD i 0) (bs.getD (i + 1) 0)
def u32At (bs : List Nat) (i : Nat) : Nat :=
  le32 (bs.getD i 0) (bs.getD (i + 1) 0) (bs.getD (i + 2) 0) (bs.getD (i + 3) 0)

/-- the short-entry branch of `deserialize` -/
def deserializeFile (bs : List Nat) (attrs : Nat) : DirFileEntryData :=
  { name := bs.take 11
    attrs := attrs
    reserved0 := u8At bs 12
    createTime0 := u8At bs 13
    createTime1 := u16At bs 14
    createDate := u16At bs 16
    accessDate := u16At bs 18
    firstClusterHi := u16At bs 20
    modifyTime := u16At bs 22
    modifyDate := u16At bs 24
    firstClusterLo := u16At bs 26
    size := u32At bs 28 }

/-- the long-name branch of `deserialize` -/
def deserializeLfn (bs : List Nat) (attrs : Nat) : DirLfnEntryData :=
  { order := u8At bs 0
    units := [u16At bs 1, u16At bs 3, u16At bs 5, u16At bs 7, u16At bs 9,
              u16At bs 14, u16At bs 16, u16At bs 18, u16At bs 20, u16At bs 22, u16At bs 24,
              u16At bs 28, u16At bs 30]
    attrs := attrs
    entryType := u8At bs 12
    checksum := u8At bs 13
    reserved0 := u16At bs 26 }

/-- `DirEntryData::deserialize` on a complete 32-byte slot -/
def deserialize (bs : List Nat) : DirEntryData :=
  if attrsIsLfn (attrsTruncate (u8At bs 11)) then .lfn (deserializeLfn bs (attrsTruncate (u8At bs 11)))
  else .file (deserializeFile bs (attrsTruncate (u8At bs 11)))

/-- `DirEntryData::deserialize` on a reader holding exactly `bs` (possibly fewer than 32 bytes): EOF inside the
    first 11 bytes yields the all-zero entry, EOF later is `UnexpectedEof`. -/
def deserializeStream (bs : List Nat) : Except Err DirEntryData :=
  if bs.length < 11 then .ok (.file {})
  else if bs.length < 32 then .error .eof
  else .ok (deserialize (bs.take 32))

end DirEntryData

/-! ## `DirEntryEditor` -/

structure DirEntryEditor where
  data : DirFileEntryData
  pos : Nat
  dirty : Bool
  deriving DecidableEq, Repr

namespace DirEntryEditor

def new (data : DirFileEntryData) (pos : Nat) : DirEntryEditor := ⟨data, pos, false⟩

def inner (ed : DirEntryEditor) : DirFileEntryData := ed.data

def setFirstCluster (ed : DirEntryEditor) (c : Option Nat) (ft : FatType) : DirEntryEditor :=
  if c ≠ ed.data.firstCluster ft then { ed with data := ed.data.setFirstCluster c ft, dirty := true } else ed

/-- `match self.data.size() { Some(n) if size != n => …, _ => {} }`: nothing happens on a directory -/
def setSize (ed : DirEntryEditor) (size : Nat) : DirEntryEditor :=
  match ed.data.size? with
  | some n => if size ≠ n then { ed with data := ed.data.setSize size, dirty := true } else ed
  | none => ed

def setCreated (ed : DirEntryEditor) (dt : DateTime) : DirEntryEditor :=
  if dt ≠ ed.data.created then { ed with data := ed.data.setCreated dt, dirty := true } else ed

def setAccessed (ed : DirEntryEditor) (d : Date) : DirEntryEditor :=
  if d ≠ ed.data.accessed then { ed with data := ed.data.setAccessed d, dirty := true } else ed

def setModified (ed : DirEntryEditor) (dt : DateTime) : DirEntryEditor :=
  if dt ≠ ed.data.modified then { ed with data := ed.data.setModified dt, dirty := true } else ed

/-- the bytes `flush` writes at `pos` (if `dirty`), and the editor afterwards -/
def flushBytes (ed : DirEntryEditor) : Option (Nat × List Nat) :=
  if ed.dirty then some (ed.pos, ed.data.serialize) else none

def flushed (ed : DirEntryEditor) : DirEntryEditor := { ed with dirty := false }

end DirEntryEditor

end FatVerif
