import FatVerif.Model.Basic
import FatVerif.Model.UInt
/-! Boot sector / BIOS parameter block: transliteration of `/repo/src/boot_sector.rs` (`BiosParameterBlock`,
`BootSector`) and of the mount path of `/repo/src/fs.rs` (`FsInfoSector`, `FileSystem::new`, the offset helpers,
`fat_slice`, the fixed-root slice of `root_dir`).

Machine integers are `Nat`s; every `+ - * / %` the Rust code performs on them is a *checked* operation of
`Model/UInt.lean`, so a panic of the real code (the harness builds with overflow checks on) is `.error .panic` here.
Bytes are `Nat`s `< 256`; a sector is a `List Nat` of length 512 (`IsSector`). -/
namespace FatVerif

/-- a 512-byte sector -/
def IsSector (b : List Nat) : Prop := b.length = 512 ∧ ∀ x ∈ b, x < 256

/-- `n` bytes starting at `i` (0 beyond the end) -/
def sliceD (b : List Nat) (i n : Nat) : List Nat :=
  (b.drop i).take n ++ List.replicate (n - ((b.drop i).take n).length) 0

def u8At (b : List Nat) (i : Nat) : Nat := b.getD i 0
def u16At (b : List Nat) (i : Nat) : Nat := le16 (b.getD i 0) (b.getD (i + 1) 0)
def u32At (b : List Nat) (i : Nat) : Nat :=
  le32 (b.getD i 0) (b.getD (i + 1) 0) (b.getD (i + 2) 0) (b.getD (i + 3) 0)

/-- `BiosParameterBlock` -/
structure Bpb where
  bytesPerSector : Nat := 0
  sectorsPerCluster : Nat := 0
  reservedSectors : Nat := 0
  fats : Nat := 0
  rootEntries : Nat := 0
  totalSectors16 : Nat := 0
  media : Nat := 0
  sectorsPerFat16 : Nat := 0
  sectorsPerTrack : Nat := 0
  heads : Nat := 0
  hiddenSectors : Nat := 0
  totalSectors32 : Nat := 0
  sectorsPerFat32 : Nat := 0
  extendedFlags : Nat := 0
  fsVersion : Nat := 0
  rootDirFirstCluster : Nat := 0
  fsInfoSector : Nat := 0
  backupBootSector : Nat := 0
  reserved0 : List Nat := List.replicate 12 0
  driveNum : Nat := 0
  reserved1 : Nat := 0
  extSig : Nat := 0
  volumeId : Nat := 0
  volumeLabel : List Nat := List.replicate 11 0
  fsTypeLabel : List Nat := List.replicate 8 0
  deriving DecidableEq, Repr, Inhabited

/-- `BootSector` -/
structure BootSector where
  bootjmp : List Nat := List.replicate 3 0
  oemName : List Nat := List.replicate 8 0
  bpb : Bpb := {}
  bootCode : List Nat := List.replicate 448 0
  bootSig : List Nat := [0, 0]
  deriving DecidableEq, Repr, Inhabited

namespace Bpb

/-- `is_fat32`: `sectors_per_fat_16 == 0` -/
def isFat32 (p : Bpb) : Bool := p.sectorsPerFat16 == 0

/-- the tail common to both layouts (drive number … fs type label) read at offset `o` of the sector -/
def withTail (p : Bpb) (b : List Nat) (o : Nat) : Bpb :=
  { p with
    driveNum := u8At b o
    reserved1 := u8At b (o + 1)
    extSig := u8At b (o + 2)
    volumeId := u32At b (o + 3)
    volumeLabel := sliceD b (o + 7) 11
    fsTypeLabel := sliceD b (o + 18) 8 }

/-- fields after `ext_sig` are cleared when the extended boot signature is not 0x29 -/
def cleanTail (p : Bpb) : Bpb :=
  { p with
    volumeId := if p.extSig ≠ 0x29 then 0 else p.volumeId
    volumeLabel := if p.extSig ≠ 0x29 then List.replicate 11 0 else p.volumeLabel
    fsTypeLabel := if p.extSig ≠ 0x29 then List.replicate 8 0 else p.fsTypeLabel }

/-- the 25 bytes common to all FAT types (sector offsets 11 … 35) -/
def readCommon (b : List Nat) : Bpb :=
  { bytesPerSector := u16At b 11
    sectorsPerCluster := u8At b 13
    reservedSectors := u16At b 14
    fats := u8At b 16
    rootEntries := u16At b 17
    totalSectors16 := u16At b 19
    media := u8At b 21
    sectorsPerFat16 := u16At b 22
    sectorsPerTrack := u16At b 24
    heads := u16At b 26
    hiddenSectors := u32At b 28
    totalSectors32 := u32At b 32 }

/-- the FAT32 extension (sector offsets 36 … 63) -/
def readExt32 (p : Bpb) (b : List Nat) : Bpb :=
  { p with
    sectorsPerFat32 := u32At b 36
    extendedFlags := u16At b 40
    fsVersion := u16At b 42
    rootDirFirstCluster := u32At b 44
    fsInfoSector := u16At b 48
    backupBootSector := u16At b 50
    reserved0 := sliceD b 52 12 }

/-- `BiosParameterBlock::deserialize` applied to the bytes at sector offset 11 -/
def deserialize (b : List Nat) : Bpb :=
  let p := readCommon b
  if p.isFat32 then ((readExt32 p b).withTail b 64).cleanTail
  else (p.withTail b 36).cleanTail

/-- `BiosParameterBlock::serialize` -/
def serialize (p : Bpb) : List Nat :=
  bytesLe16 p.bytesPerSector ++ [p.sectorsPerCluster] ++ bytesLe16 p.reservedSectors ++ [p.fats]
  ++ bytesLe16 p.rootEntries ++ bytesLe16 p.totalSectors16 ++ [p.media] ++ bytesLe16 p.sectorsPerFat16
  ++ bytesLe16 p.sectorsPerTrack ++ bytesLe16 p.heads ++ bytesLe32 p.hiddenSectors ++ bytesLe32 p.totalSectors32
  ++ (if p.isFat32 then
        bytesLe32 p.sectorsPerFat32 ++ bytesLe16 p.extendedFlags ++ bytesLe16 p.fsVersion
        ++ bytesLe32 p.rootDirFirstCluster ++ bytesLe16 p.fsInfoSector ++ bytesLe16 p.backupBootSector
        ++ p.reserved0
      else [])
  ++ [p.driveNum, p.reserved1, p.extSig] ++ bytesLe32 p.volumeId ++ p.volumeLabel ++ p.fsTypeLabel

/-! ### getters -/

def mirroringEnabled (p : Bpb) : Bool := p.extendedFlags % 256 / 128 % 2 == 0   -- `extended_flags & 0x80 == 0`

def activeFat (p : Bpb) : Nat := if p.mirroringEnabled then 0 else p.extendedFlags % 16   -- `& 0x0F`

/-- `status_flags()`: `FsStatusFlags::decode(reserved_1)` = (dirty, io_error) -/
def statusDirty (p : Bpb) : Bool := p.reserved1 % 2 == 1
def statusIoError (p : Bpb) : Bool := p.reserved1 / 2 % 2 == 1
def statusFlags (p : Bpb) : Bool × Bool := (p.statusDirty, p.statusIoError)

def sectorsPerFat (p : Bpb) : Nat := if p.isFat32 then p.sectorsPerFat32 else p.sectorsPerFat16

def totalSectors (p : Bpb) : Nat := if p.totalSectors16 = 0 then p.totalSectors32 else p.totalSectors16

def reservedSectorsU32 (p : Bpb) : Nat := p.reservedSectors

/-- `root_dir_sectors`: `(root_entries*32 + bytes_per_sector - 1) / bytes_per_sector` in `u32` -/
def rootDirSectors (p : Bpb) : Except Err Nat := do
  let rootDirBytes ← u32Mul p.rootEntries 32
  let a ← u32Add rootDirBytes p.bytesPerSector
  let a1 ← u32Sub a 1
  u32Div a1 p.bytesPerSector

/-- `sectors_per_all_fats`: `fats * sectors_per_fat` in `u32` -/
def sectorsPerAllFats (p : Bpb) : Except Err Nat := u32Mul p.fats p.sectorsPerFat

/-- `first_data_sector`: `reserved + fat_sectors + root_dir_sectors` in `u32` -/
def firstDataSector (p : Bpb) : Except Err Nat := do
  let rootDirSectors ← p.rootDirSectors
  let fatSectors ← p.sectorsPerAllFats
  let s ← u32Add p.reservedSectors fatSectors
  u32Add s rootDirSectors

/-- `total_clusters`: `(total_sectors - first_data_sector) / sectors_per_cluster` in `u32` -/
def totalClusters (p : Bpb) : Except Err Nat := do
  let firstDataSector ← p.firstDataSector
  let dataSectors ← u32Sub p.totalSectors firstDataSector
  u32Div dataSectors p.sectorsPerCluster

/-- `bytes_from_sectors`: `u64` product -/
def bytesFromSectors (p : Bpb) (sectors : Nat) : Except Err Nat := u64Mul sectors p.bytesPerSector

/-- `sectors_from_clusters`: `u32` product -/
def sectorsFromClusters (p : Bpb) (clusters : Nat) : Except Err Nat := u32Mul clusters p.sectorsPerCluster

/-- `cluster_size`: `u32` product -/
def clusterSize (p : Bpb) : Except Err Nat := u32Mul p.sectorsPerCluster p.bytesPerSector

/-- `clusters_from_bytes`: `((bytes + cs - 1) / cs) as u32` in `u64` -/
def clustersFromBytes (p : Bpb) (bytes : Nat) : Except Err Nat := do
  let cs ← p.clusterSize
  let a ← u64Add bytes cs
  let a1 ← u64Sub a 1
  let q ← u64Div a1 cs
  pure (asU32 q)

def fsInfoSectorU32 (p : Bpb) : Nat := p.fsInfoSector
def backupBootSectorU32 (p : Bpb) : Nat := p.backupBootSector

/-! ### validation (same order, same error, every arithmetic step checked) -/

def validateBytesPerSector (p : Bpb) : Except Err Unit :=
  if isPowerOfTwo p.bytesPerSector = false then .error .corrupted
  else if p.bytesPerSector < 512 ∨ p.bytesPerSector > 4096 then .error .corrupted
  else .ok ()

def validateSectorsPerCluster (p : Bpb) : Except Err Unit :=
  if isPowerOfTwo p.sectorsPerCluster = false then .error .corrupted
  else do
    let _bytesPerCluster ← u32Mul p.bytesPerSector p.sectorsPerCluster   -- only compared for a warning
    pure ()

def validateReservedSectors (p : Bpb) : Except Err Unit :=
  if p.reservedSectors < 1 then .error .corrupted
  else if p.isFat32 = true ∧ p.backupBootSector ≥ p.reservedSectors then .error .corrupted
  else if p.isFat32 = true ∧ p.fsInfoSector ≥ p.reservedSectors then .error .corrupted
  else .ok ()

def validateFats (p : Bpb) : Except Err Unit :=
  if p.fats = 0 then .error .corrupted else .ok ()

def validateRootEntries (p : Bpb) : Except Err Unit :=
  if p.isFat32 = true ∧ p.rootEntries ≠ 0 then .error .corrupted
  else if p.isFat32 = false ∧ p.rootEntries = 0 then .error .corrupted
  else do
    let bytes ← u32Mul p.rootEntries 32
    let _rem ← u32Rem bytes p.bytesPerSector   -- only compared for a warning
    pure ()

/-- the three field checks of `validate_total_sectors` that come before the arithmetic -/
def totalSectorsFieldsBad (p : Bpb) : Bool :=
  (p.isFat32 && p.totalSectors16 != 0)
  || (p.totalSectors16 == 0 && p.totalSectors32 == 0)
  || (p.totalSectors16 != 0 && p.totalSectors32 != 0 && p.totalSectors16 != p.totalSectors32)

/-- `first_data_sector_64` of `validate_total_sectors`: the region sum in `u64`
    (`reserved + fats * sectors_per_fat + root_dir_sectors()`, evaluated left to right) -/
def firstDataSector64 (p : Bpb) : Except Err Nat := do
  let fatSectors ← u64Mul p.fats p.sectorsPerFat
  let s ← u64Add p.reservedSectors fatSectors
  let rootDirSectors ← p.rootDirSectors
  u64Add s rootDirSectors

def validateTotalSectors (p : Bpb) : Except Err Unit :=
  if p.totalSectorsFieldsBad = true then .error .corrupted
  else do
    let firstDataSector64 ← p.firstDataSector64
    if firstDataSector64 > 0xFFFFFFFF then .error .corrupted
    else do
      let firstDataSector ← p.firstDataSector
      if p.totalSectors ≤ firstDataSector then .error .corrupted else pure ()

def validateSectorsPerFat (p : Bpb) : Except Err Unit :=
  if p.isFat32 = true ∧ p.sectorsPerFat32 = 0 then .error .corrupted else .ok ()

/-- `FatType::max_clusters` -/
def maxClusters : FatType → Nat
  | .fat12 => 4084 | .fat16 => 65524 | .fat32 => 0x0FFFFFF4

/-- the tail of `validate_total_clusters`, in `u64`:
    `(sectors_per_fat * bytes_per_sector * 8 / bits).saturating_sub(2)` (feeds a warning) -/
def usableFatEntries (p : Bpb) (ft : FatType) : Except Err Nat := do
  let a ← u64Mul p.sectorsPerFat p.bytesPerSector
  let b ← u64Mul a 8
  let totalFatEntries ← u64Div b ft.bits
  pure (totalFatEntries - 2)

/-- the FAT32 root-cluster range check of `validate_total_clusters`:
    `root_dir_first_cluster < 2 || root_dir_first_cluster - 2 >= total_clusters` (the subtraction is guarded) -/
def rootClusterBad (p : Bpb) (totalClusters : Nat) : Bool :=
  p.isFat32 && (decide (p.rootDirFirstCluster < 2) || decide (p.rootDirFirstCluster - 2 ≥ totalClusters))

def validateTotalClusters (p : Bpb) : Except Err Unit := do
  let totalClusters ← p.totalClusters
  if p.isFat32 ≠ decide (FatType.fromClusters totalClusters = .fat32) then .error .corrupted
  else if FatType.fromClusters totalClusters = .fat32 ∧ totalClusters > maxClusters (FatType.fromClusters totalClusters)
    then .error .corrupted
  else if p.rootClusterBad totalClusters = true then .error .corrupted
  else do
    let _usable ← p.usableFatEntries (FatType.fromClusters totalClusters)
    pure ()

/-- `BiosParameterBlock::validate` -/
def validate (p : Bpb) : Except Err Unit :=
  if p.fsVersion ≠ 0 then .error .corrupted
  else do
    p.validateBytesPerSector
    p.validateSectorsPerCluster
    p.validateReservedSectors
    p.validateFats
    p.validateRootEntries
    p.validateTotalSectors
    p.validateSectorsPerFat
    p.validateTotalClusters

end Bpb

namespace BootSector

/-- `BootSector::deserialize` of a 512-byte sector. On FAT32 only 420 bytes of boot code are read, the remaining
    28 stay zero. -/
def deserialize (b : List Nat) : BootSector :=
  let p := Bpb.deserialize b
  { bootjmp := sliceD b 0 3
    oemName := sliceD b 3 8
    bpb := p
    bootCode := if p.isFat32 then sliceD b 90 420 ++ List.replicate 28 0 else sliceD b 62 448
    bootSig := sliceD b 510 2 }

/-- `BootSector::serialize` -/
def serialize (s : BootSector) : List Nat :=
  s.bootjmp ++ s.oemName ++ s.bpb.serialize
  ++ (if s.bpb.isFat32 then s.bootCode.take 420 else s.bootCode.take 448) ++ s.bootSig

/-- `BootSector::validate(strict)` -/
def validate (s : BootSector) (strict : Bool) : Except Err Unit :=
  if strict = true ∧ s.bootSig ≠ [0x55, 0xAA] then .error .corrupted
  else s.bpb.validate

end BootSector

/-- what `fatfs::verif::bpb_probe` reports (`BpbProbe`), i.e. everything `FileSystem::new` derives from the
    boot sector before any further I/O -/
structure Geometry where
  fatType : FatType
  bytesPerSector : Nat
  clusterSize : Nat
  totalClusters : Nat
  firstDataSector : Nat
  rootDirSectors : Nat
  sectorsPerFat : Nat
  reservedSectors : Nat
  fats : Nat
  totalSectors : Nat
  mirroring : Bool
  activeFat : Nat
  rootDirFirstCluster : Nat
  fsInfoSector : Nat
  backupBootSector : Nat
  statusDirty : Bool
  statusIoError : Bool
  deriving DecidableEq, Repr, Inhabited

/-- the derivations `FileSystem::new` / `bpb_probe` perform after validation -/
def Bpb.geometry (p : Bpb) : Except Err Geometry := do
  let rootDirSectors ← p.rootDirSectors
  let firstDataSector ← p.firstDataSector
  let totalClusters ← p.totalClusters
  let clusterSize ← p.clusterSize
  pure
    { fatType := FatType.fromClusters totalClusters
      bytesPerSector := p.bytesPerSector
      clusterSize := clusterSize
      totalClusters := totalClusters
      firstDataSector := firstDataSector
      rootDirSectors := rootDirSectors
      sectorsPerFat := p.sectorsPerFat
      reservedSectors := p.reservedSectors
      fats := p.fats
      totalSectors := p.totalSectors
      mirroring := p.mirroringEnabled
      activeFat := p.activeFat
      rootDirFirstCluster := p.rootDirFirstCluster
      fsInfoSector := p.fsInfoSector
      backupBootSector := p.backupBootSector
      statusDirty := p.statusDirty
      statusIoError := p.statusIoError }

/-- `fatfs::verif::bpb_probe`: deserialize, `validate(strict)`, derive the geometry -/
def probeBoot (boot : BootSector) (strict : Bool) : Except Err Geometry := do
  boot.validate strict
  boot.bpb.geometry

def probe (b : List Nat) (strict : Bool) : Except Err Geometry := probeBoot (BootSector.deserialize b) strict

/-! ### FS-info sector -/

/-- `FsInfoSector` (`dirty` = "needs writing back") -/
structure FsInfo where
  freeClusterCount : Option Nat := none
  nextFreeCluster : Option Nat := none
  dirty : Bool := false
  deriving DecidableEq, Repr, Inhabited

namespace FsInfo

def LEAD_SIG : Nat := 0x41615252
def STRUC_SIG : Nat := 0x61417272
def TRAIL_SIG : Nat := 0xAA550000

def decodeFree (n : Nat) : Option Nat := if n = 0xFFFFFFFF then none else some n

def decodeNext (n : Nat) : Option Nat := if n = 0xFFFFFFFF ∨ n = 0 ∨ n = 1 then none else some n

/-- `FsInfoSector::deserialize` -/
def deserialize (b : List Nat) : Except Err FsInfo :=
  if u32At b 0 ≠ LEAD_SIG then .error .corrupted
  else if u32At b 484 ≠ STRUC_SIG then .error .corrupted
  else if u32At b 508 ≠ TRAIL_SIG then .error .corrupted
  else .ok { freeClusterCount := decodeFree (u32At b 488), nextFreeCluster := decodeNext (u32At b 492), dirty := false }

/-- `FsInfoSector::serialize` -/
def serialize (f : FsInfo) : List Nat :=
  bytesLe32 LEAD_SIG ++ List.replicate 480 0 ++ bytesLe32 STRUC_SIG
  ++ bytesLe32 (f.freeClusterCount.getD 0xFFFFFFFF) ++ bytesLe32 (f.nextFreeCluster.getD 0xFFFFFFFF)
  ++ List.replicate 12 0 ++ bytesLe32 TRAIL_SIG

def fixFree (total : Nat) : Option Nat → Option Nat
  | some n => if n > total then none else some n
  | none => none

def fixNext (maxValid : Nat) : Option Nat → Option Nat
  | some n => if n > maxValid then none else some n
  | none => none

/-- `FsInfoSector::validate_and_fix(total_clusters)`; `total_clusters + 2` is a checked `u32` sum -/
def validateAndFix (f : FsInfo) (totalClusters : Nat) : Except Err FsInfo := do
  let maxValidClusterNumber ← u32Add totalClusters 2
  pure { f with freeClusterCount := fixFree totalClusters f.freeClusterCount
                nextFreeCluster := fixNext maxValidClusterNumber f.nextFreeCluster }

end FsInfo

/-- result of `FileSystem::new` -/
structure Mounted where
  bpb : Bpb
  geo : Geometry
  fsInfo : FsInfo
  deriving DecidableEq, Repr, Inhabited

/-- reading the FS-info sector in `FileSystem::new`: only on FAT32, at byte offset
    `fs_info_sector * bytes_per_sector` (checked `u64` product); `FsInfoSector::default()` otherwise.
    The device holds `bs` at offset 0 and `fsInfoBytes` at that offset when it is not 0. -/
def readFsInfo (p : Bpb) (g : Geometry) (bs fsInfoBytes : List Nat) : Except Err FsInfo :=
  if g.fatType = .fat32 then do
    let off ← p.bytesFromSectors p.fsInfoSector
    FsInfo.deserialize (if off = 0 then bs else fsInfoBytes)
  else pure {}

/-- a dirty volume forgets the free count -/
def forgetIfDirty (dirty : Bool) (f : FsInfo) : FsInfo :=
  if dirty then { f with freeClusterCount := none } else f

/-- `FileSystem::new` on a device whose sector 0 is `bs` and whose FS-info location holds `fsInfoBytes` -/
def mountGeometry (bs fsInfoBytes : List Nat) (strict : Bool) : Except Err Mounted := do
  let g ← probe bs strict
  let f ← readFsInfo (BootSector.deserialize bs).bpb g bs fsInfoBytes
  let f ← (forgetIfDirty g.statusDirty f).validateAndFix g.totalClusters
  pure { bpb := (BootSector.deserialize bs).bpb, geo := g, fsInfo := f }

/-! ### offsets (`fs.rs`) -/

/-- `sector_from_cluster`: `first_data_sector + sectors_from_clusters(cluster - 2)` in `u32` -/
def sectorFromCluster (p : Bpb) (firstDataSector cluster : Nat) : Except Err Nat := do
  let k ← u32Sub cluster 2
  let s ← p.sectorsFromClusters k
  u32Add firstDataSector s

/-- `offset_from_cluster` -/
def offsetFromCluster (p : Bpb) (firstDataSector cluster : Nat) : Except Err Nat := do
  let s ← sectorFromCluster p firstDataSector cluster
  p.bytesFromSectors s

/-- `bytes_from_clusters` -/
def bytesFromClusters (p : Bpb) (clusters : Nat) : Except Err Nat := do
  let s ← p.sectorsFromClusters clusters
  p.bytesFromSectors s

/-- a `DiskSlice`: `[begin, begin + size)` replicated `mirrors` times at distance `size` -/
structure SlicePlace where
  sBegin : Nat
  size : Nat
  mirrors : Nat
  deriving DecidableEq, Repr, Inhabited

/-- `DiskSlice::from_sectors` -/
def sliceFromSectors (p : Bpb) (firstSector sectorCount mirrors : Nat) : Except Err SlicePlace := do
  let b ← p.bytesFromSectors firstSector
  let s ← p.bytesFromSectors sectorCount
  pure { sBegin := b, size := s, mirrors := mirrors }

/-- first sector of the FAT slice in `fat_slice` -/
def fatSliceFirstSector (p : Bpb) : Except Err Nat :=
  if p.mirroringEnabled then pure p.reservedSectors
  else do
    let a ← u32Mul p.activeFat p.sectorsPerFat
    u32Add p.reservedSectors a

def fatSliceMirrors (p : Bpb) : Nat := if p.mirroringEnabled then p.fats else 1

/-- `fat_slice` placement -/
def fatSlice (p : Bpb) : Except Err SlicePlace := do
  let first ← fatSliceFirstSector p
  sliceFromSectors p first p.sectorsPerFat (fatSliceMirrors p)

def fatSliceBegin (p : Bpb) : Except Err Nat := do let s ← fatSlice p; pure s.sBegin
def fatSliceSize (p : Bpb) : Except Err Nat := do let s ← fatSlice p; pure s.size

/-- the fixed root directory slice of `root_dir()` on FAT12/16:
    `from_sectors(first_data_sector - root_dir_sectors, root_dir_sectors, 1)` -/
def rootDirSlice (p : Bpb) (firstDataSector rootDirSectors : Nat) : Except Err SlicePlace := do
  let first ← u32Sub firstDataSector rootDirSectors
  sliceFromSectors p first rootDirSectors 1

end FatVerif
