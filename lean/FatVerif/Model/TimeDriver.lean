import FatVerif.Model.Util
import FatVerif.Model.Basic
/-! pure-probe driver for suite `Time` — STUB, to be replaced (see /verif/ARCH.md). -/
namespace FatVerif.TimeDriver

def handle (_fn : String) (_args : List String) : Option String := none

def oracle (_fn : String) (_args : List String) (_implOut : List String) : Option String := none

def branch (_fn : String) (_args : List String) : String := "-"

end FatVerif.TimeDriver
