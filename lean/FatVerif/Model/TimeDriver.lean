import FatVerif.Model.Util
import FatVerif.Model.Basic
import FatVerif.Model.Time
import FatVerif.Model.DirEntry
/-!
# pure-probe driver for suite `time` (generator: `/verif/harness/src/pure_time.rs`)

Probe lines (all numbers decimal, byte strings lower-case hex, see ARCH.md):

```
P time.date_encode <y> <m> <d>            => <raw> | PANIC           fatfs::verif::date_encode (Date::new + encode)
P time.date_decode <raw>                  => <y> <m> <d>             fatfs::verif::date_decode
P time.time_encode <h> <mi> <s> <ms>      => <raw> <hi> | PANIC      fatfs::verif::time_encode (Time::new + encode)
P time.time_decode <raw> <hi>             => <h> <mi> <s> <ms>       fatfs::verif::time_decode
P time.date_rt <y> <m> <d>                => <y'> <m'> <d'> | PANIC  date_decode(date_encode(..))
P time.time_rt <h> <mi> <s> <ms>          => <h'> <mi'> <s'> <ms'> | PANIC   time_decode(time_encode(..))   (created)
P time.mtime_rt <h> <mi> <s> <ms>         => <h'> <mi'> <s'> <ms'> | PANIC   time_decode(time_encode(..).0, 0) (modified)
P dirent.slot <hex> <alloc 0|1>           => F <end> <del> <reser hex32> <name hex11> <attrs> <isdir> <isvol> <size|none>
                                               <fc16|none> <fc32|none> <cy> <cm> <cd> <ch> <cmi> <cs> <cms> <ay> <am> <ad>
                                               <my> <mm> <md> <mh> <mmi> <ms> <mms> <short hex> <lower hex>
                                           | L <end> <del> <reser hex32> <order> <checksum> <units hex 13×4>
                                           | ERR <code>
      (`<hex>` is normally 32 bytes; shorter inputs exercise the EOF paths.  `<alloc>` says whether the harness was built
       with the `alloc` feature; without it `lower_display` is not computed and the token is `-`.)
P dirent.set_times <hex> <c> <a> <m>      => <hex32> | none | PANIC
      <c>, <m> = `none` or `y,mo,d,h,mi,s,ms` (comma separated, one token); <a> = `none` or `y,mo,d`.
      `none` output: the slot is not a short entry (LFN slot or deserialisation error); checked before the constructors run.
P dirent.short_eq <hex11> <name hex utf8> => 0 | 1                   ShortName::new(raw).eq_ignore_case(name, Lossy)
      handled only when every code point of `name` is ASCII or U+FFFD (on these `char::to_uppercase` and
      `to_ascii_uppercase` agree, so the answer does not depend on the `unicode` feature); other names → not handled here.
```

Oracles (C18), evaluated on the implementation's output only:
`date-roundtrip` (exact), `time-roundtrip` (10 ms), `mtime-roundtrip` (2 s, millis 0), `date-pack`/`date-unpack`/
`time-pack`/`time-unpack` (the FAT specification's bit layout written as plain arithmetic), `new-range` (the constructors
panic exactly outside the documented ranges), `slot-reserialize` (read + write back changes at most bits 6–7 of byte 11),
`set-times-frame` (only bytes 13–17 / 18–19 / 22–25 change), `set-times-readback` (stored stamps decode to the rounded input).
-/
namespace FatVerif.TimeDriver
open FatVerif.Util

def nats (args : List String) : Option (List Nat) := args.mapM natOf

def showNats (l : List Nat) : String := " ".intercalate (l.map toString)

def dateL (d : Date) : List Nat := [d.year, d.month, d.day]
def timeL (t : Time) : List Nat := [t.hour, t.min, t.sec, t.millis]
def dtL (dt : DateTime) : List Nat := dateL dt.date ++ timeL dt.time

def commaNats (s : String) : Option (List Nat) := (s.splitOn ",").mapM natOf

/-- `none` / `y,mo,d,h,mi,s,ms` → outer `none` = parse error; inner: absent | constructor outcome -/
def parseDT (s : String) : Option (Option (Option DateTime)) :=
  if s = "none" then some none else
  match commaNats s with
  | some [y, mo, d, h, mi, sec, ms] => some (some (DateTime.new? y mo d h mi sec ms))
  | _ => none

def parseD (s : String) : Option (Option (Option Date)) :=
  if s = "none" then some none else
  match commaNats s with
  | some [y, mo, d] => some (some (Date.new? y mo d))
  | _ => none

/-! ### model answers -/

def slotFile (f : DirFileEntryData) (alloc : Bool) : List String :=
  [hexOfBytes f.name, toString f.attrs, showBool f.isDir, showBool f.isVolume, showOptNat f.size?,
   showOptNat (f.firstCluster .fat16), showOptNat (f.firstCluster .fat32)] ++
  (dtL f.created ++ dateL f.accessed ++ dtL f.modified).map toString ++
  [hexOfBytes (shortDisplay f.name), if alloc then hexOfBytes f.lowercaseName.asBytes else "-"]

def slotOut (bs : List Nat) (alloc : Bool) : String :=
  match DirEntryData.deserializeStream bs with
  | .error e => s!"ERR {e.code}"
  | .ok e =>
    let common := [showBool e.isEnd, showBool e.isDeleted, hexOfBytes e.serialize]
    match e with
    | .file f => " ".intercalate ("F" :: common ++ slotFile f alloc)
    | .lfn l => " ".intercalate ("L" :: common ++ [toString l.order, toString l.checksum, hexOfUnits l.units])

/-- apply one optional setter; `none` = the constructor panicked -/
def applyOpt {α β : Type} (x : Option (Option α)) (f : β → α → β) (e : β) : Option β :=
  match x with
  | none => some e
  | some none => none
  | some (some v) => some (f e v)

def setTimesOut (bs : List Nat) (c : Option (Option DateTime)) (a : Option (Option Date))
    (m : Option (Option DateTime)) : String :=
  match DirEntryData.deserializeStream bs with
  | .ok (.file f) =>
    match (applyOpt c DirFileEntryData.setCreated f).bind fun f1 =>
          (applyOpt a DirFileEntryData.setAccessed f1).bind fun f2 =>
          applyOpt m DirFileEntryData.setModified f2 with
    | some f3 => hexOfBytes f3.serialize
    | none => "PANIC"
  | _ => "none"

def codepointOk (c : Nat) : Bool := c < 128 || c == 0xFFFD

def shortEqOut (raw : List Nat) (name : String) : Option String :=
  let cps := name.toList.map Char.toNat
  if cps.all codepointOk then
    some (showBool ((ShortName.new raw).eqIgnoreCase (fun c => [ShortName.asciiUpper c]) cps))
  else none

def handle (fn : String) (args : List String) : Option String :=
  match fn with
  | "time.date_encode" =>
    match nats args with
    | some [y, m, d] => some (match Date.new? y m d with | some dt => toString dt.encode | none => "PANIC")
    | _ => none
  | "time.date_decode" =>
    match nats args with
    | some [raw] => some (showNats (dateL (Date.decode raw)))
    | _ => none
  | "time.time_encode" =>
    match nats args with
    | some [h, mi, s, ms] =>
      some (match Time.new? h mi s ms with | some t => showNats [t.encodeLo, t.encodeHi] | none => "PANIC")
    | _ => none
  | "time.time_decode" =>
    match nats args with
    | some [raw, hi] => some (showNats (timeL (Time.decode raw hi)))
    | _ => none
  | "time.date_rt" =>
    match nats args with
    | some [y, m, d] =>
      some (match Date.new? y m d with | some dt => showNats (dateL (Date.decode dt.encode)) | none => "PANIC")
    | _ => none
  | "time.time_rt" =>
    match nats args with
    | some [h, mi, s, ms] =>
      some (match Time.new? h mi s ms with
            | some t => showNats (timeL (Time.decode t.encodeLo t.encodeHi)) | none => "PANIC")
    | _ => none
  | "time.mtime_rt" =>
    match nats args with
    | some [h, mi, s, ms] =>
      some (match Time.new? h mi s ms with
            | some t => showNats (timeL (Time.decode t.encodeLo 0)) | none => "PANIC")
    | _ => none
  | "dirent.slot" =>
    match args with
    | [hex, alloc] =>
      match bytesOfHex hex, boolOf alloc with
      | some bs, some al => some (slotOut bs al)
      | _, _ => none
    | _ => none
  | "dirent.set_times" =>
    match args with
    | [hex, c, a, m] =>
      match bytesOfHex hex, parseDT c, parseD a, parseDT m with
      | some bs, some c, some a, some m => some (setTimesOut bs c a m)
      | _, _, _, _ => none
    | _ => none
  | "dirent.short_eq" =>
    match args with
    | [rawHex, nameHex] =>
      match bytesOfHex rawHex, (bytesOfHex nameHex).bind stringOfUtf8 with
      | some raw, some name => shortEqOut raw name
      | _, _ => none
    | _ => none
  | _ => none

/-! ### oracles: the property, evaluated on the implementation's answer -/

def dateOk (y m d : Nat) : Bool := 1980 ≤ y && y ≤ 2107 && 1 ≤ m && m ≤ 12 && 1 ≤ d && d ≤ 31
def timeOk (h mi s ms : Nat) : Bool := h ≤ 23 && mi ≤ 59 && s ≤ 59 && ms ≤ 999

/-- expect `want` (or PANIC exactly when out of range) -/
def expect (sig : String) (inRange : Bool) (args : List String) (want : List Nat) (implOut : List String) :
    Option String :=
  let a := " ".intercalate args
  let o := " ".intercalate implOut
  if inRange then
    if implOut = want.map toString then none else some s!"C18 {sig} {a} -> {o} want {showNats want}"
  else if implOut = ["PANIC"] then none else some s!"C18 new-range {a} -> {o} want PANIC"

/-- bytes of the slot that a `set_times` call may change -/
def allowedBytes (c a m : Bool) : List Nat :=
  (if c then [13, 14, 15, 16, 17] else []) ++ (if a then [18, 19] else []) ++ (if m then [22, 23, 24, 25] else [])

def frameViolation (inp out : List Nat) (allowed : List Nat) : Option Nat :=
  (List.range 32).find? fun i =>
    !allowed.contains i && out.getD i 0 != (if i = 11 then inp.getD i 0 % 64 else inp.getD i 0)

def argDT (s : String) : Option (List Nat) := if s = "none" then none else commaNats s

def setTimesOracle (inp : List Nat) (c a m : String) (out : List Nat) : Option String :=
  let allowed := allowedBytes (c != "none") (a != "none") (m != "none")
  match frameViolation inp out allowed with
  | some i => some s!"C18 set-times-frame byte{i}"
  | none =>
    let u16 := fun i => out.getD i 0 + 256 * out.getD (i + 1) 0
    let cBad := match argDT c with
      | some [y, mo, d, h, mi, s, ms] =>
        -- spec unpacking, written independently of the model
        let dte := u16 16; let tm := u16 14; let hi := out.getD 13 0
        [dte / 512 + 1980, dte / 32 % 16, dte % 32, tm / 2048, tm / 32 % 64, tm % 32 * 2 + hi / 100, hi % 100 * 10]
          != [y, mo, d, h, mi, s, ms / 10 * 10]
      | _ => false
    let aBad := match argDT a with
      | some [y, mo, d] => let dte := u16 18; [dte / 512 + 1980, dte / 32 % 16, dte % 32] != [y, mo, d]
      | _ => false
    let mBad := match argDT m with
      | some [y, mo, d, h, mi, s, _] =>
        let dte := u16 24; let tm := u16 22
        [dte / 512 + 1980, dte / 32 % 16, dte % 32, tm / 2048, tm / 32 % 64, tm % 32 * 2]
          != [y, mo, d, h, mi, s / 2 * 2]
      | _ => false
    if cBad then some "C18 set-times-readback created"
    else if aBad then some "C18 set-times-readback accessed"
    else if mBad then some "C18 set-times-readback modified"
    else none

def oracle (fn : String) (args : List String) (implOut : List String) : Option String :=
  match fn with
  | "time.date_rt" =>
    match nats args with
    | some [y, m, d] => expect "date-roundtrip" (dateOk y m d) args [y, m, d] implOut
    | _ => none
  | "time.time_rt" =>
    match nats args with
    | some [h, mi, s, ms] => expect "time-roundtrip" (timeOk h mi s ms) args [h, mi, s, ms / 10 * 10] implOut
    | _ => none
  | "time.mtime_rt" =>
    match nats args with
    | some [h, mi, s, ms] => expect "mtime-roundtrip" (timeOk h mi s ms) args [h, mi, s / 2 * 2, 0] implOut
    | _ => none
  | "time.date_encode" =>
    match nats args with
    | some [y, m, d] => expect "date-pack" (dateOk y m d) args [(y - 1980) * 512 + m * 32 + d] implOut
    | _ => none
  | "time.date_decode" =>
    match nats args with
    | some [raw] => expect "date-unpack" true args [raw / 512 + 1980, raw / 32 % 16, raw % 32] implOut
    | _ => none
  | "time.time_encode" =>
    match nats args with
    | some [h, mi, s, ms] =>
      expect "time-pack" (timeOk h mi s ms) args [h * 2048 + mi * 32 + s / 2, s % 2 * 100 + ms / 10] implOut
    | _ => none
  | "time.time_decode" =>
    match nats args with
    | some [raw, hi] =>
      expect "time-unpack" true args [raw / 2048, raw / 32 % 64, raw % 32 * 2 + hi / 100, hi % 100 * 10] implOut
    | _ => none
  | "dirent.slot" =>
    match args, implOut with
    | hex :: _, _ :: _ :: _ :: reser :: _ =>
      match bytesOfHex hex, bytesOfHex reser with
      | some inp, some out =>
        if inp.length ≥ 32 then
          match frameViolation (inp.take 32) out [] with
          | some i => some s!"C18 slot-reserialize byte{i}"
          | none => if out.length = 32 then none else some "C18 slot-reserialize length"
        else none
      | _, _ => none
    | _, _ => none
  | "dirent.set_times" =>
    match args, implOut with
    | [hex, c, a, m], [outHex] =>
      if outHex = "none" || outHex = "PANIC" then none else
      match bytesOfHex hex, bytesOfHex outHex with
      | some inp, some out =>
        if inp.length ≥ 32 then
          if out.length = 32 then setTimesOracle (inp.take 32) c a m out else some "C18 set-times-frame length"
        else none
      | _, _ => none
    | _, _ => none
  | _ => none

/-! ### branch labels -/

def dateBranch (y m d : Nat) : String :=
  if y < 1980 then "panic-year-lo" else if y > 2107 then "panic-year-hi"
  else if m < 1 then "panic-month-lo" else if m > 12 then "panic-month-hi"
  else if d < 1 then "panic-day-lo" else if d > 31 then "panic-day-hi" else "ok"

def timeBranch (h mi s ms : Nat) : String :=
  if h > 23 then "panic-hour" else if mi > 59 then "panic-min" else if s > 59 then "panic-sec"
  else if ms > 999 then "panic-millis"
  else (if s % 2 = 1 then "odd" else "even") ++ (if ms % 10 = 0 then "-ms10" else "-msfrac")

def slotBranch (bs : List Nat) : String :=
  if bs.length < 11 then "short-eof-end" else if bs.length < 32 then "short-eof-err" else
  match DirEntryData.deserialize (bs.take 32) with
  | .lfn l => if l.isEnd then "lfn-end" else if l.isDeleted then "lfn-deleted" else "lfn"
  | .file f =>
    (if f.isEnd then "file-end" else if f.isDeleted then "file-deleted"
     else if f.isVolume then "file-volume" else if f.isDir then "file-dir" else "file") ++
    (if bs.getD 11 0 ≥ 64 then "-attrtrunc" else "") ++
    (if f.name.getD 0 0 = 5 then "-05" else "") ++
    (if f.lowercaseBasename || f.lowercaseExt then "-lc" else "")

def branch (fn : String) (args : List String) : String :=
  match fn with
  | "time.date_encode" | "time.date_rt" =>
    match nats args with
    | some [y, m, d] => dateBranch y m d
    | _ => "-"
  | "time.date_decode" =>
    match nats args with
    | some [raw] =>
      let d := Date.decode raw
      if d.month = 0 then "month0" else if d.month > 12 then "month>12" else if d.day = 0 then "day0" else "valid"
    | _ => "-"
  | "time.time_encode" | "time.time_rt" | "time.mtime_rt" =>
    match nats args with
    | some [h, mi, s, ms] => timeBranch h mi s ms
    | _ => "-"
  | "time.time_decode" =>
    match nats args with
    | some [raw, hi] =>
      let t := Time.decode raw hi
      (if t.hour > 23 then "hour>23" else if t.min > 59 then "min>59" else if t.sec > 59 then "sec>59" else "valid") ++
      (if hi ≥ 200 then "-hi>=200" else if hi ≥ 100 then "-hi>=100" else "-hi<100")
    | _ => "-"
  | "dirent.slot" =>
    match args with
    | hex :: _ => match bytesOfHex hex with | some bs => slotBranch bs | none => "-"
    | _ => "-"
  | "dirent.set_times" =>
    match args with
    | [hex, c, a, m] =>
      let f := fun (s : String) (l : String) => if s = "none" then "" else l
      let kind := match bytesOfHex hex with | some bs => slotBranch bs | none => "-"
      let res := match handle fn args with | some "PANIC" => "panic" | some "none" => "none" | _ => "ok"
      (if kind.startsWith "file" then "file" else kind) ++ ":" ++ f c "c" ++ f a "a" ++ f m "m" ++ ":" ++ res
    | _ => "-"
  | "dirent.short_eq" =>
    match handle fn args with | some "1" => "eq" | some "0" => "ne" | _ => "-"
  | _ => "-"

end FatVerif.TimeDriver
