import FatVerif.Model.Basic
/-!
# Byte-level FAT codec (`table.rs`: `Fat12/16/32::{get_raw,get,set_raw,set}`)

Pure transliteration on the bytes of ONE FAT copy, `f : Array Nat` (every element `< 256`).

Stream semantics assumed (harness stream == `Dev` semantics of ARCH.md): `seek(Start n)` always succeeds;
`read`/`write` transfer `min(len, size − pos)` bytes. Hence
* `read_u16_le`/`read_u32_le` on a short stream → `UnexpectedEof` (`.error .eof`);
* `write_u16_le`/`write_u32_le` past the end → the bytes that fit ARE written, then `WriteZero`
  (`.error .writeZero`; the partially written bytes are given by `setAfter`).
u32 arithmetic of the Rust code (`cluster * 2`, `cluster * 4`, `cluster + cluster / 2`) panics on overflow in the
build the harness uses (overflow-checks on): `.error .panic`.

Machine integers are `Nat`; masks are written arithmetically (`% 2^k`, `/ 2^k * 2^k`); the two places where the
Rust code ORs a caller-supplied value into a word keep `|||` so that unrepresentable values behave as in Rust.
-/
namespace FatVerif.Fat

/-- byte `i` of the FAT (0 past the end; callers check the length first) -/
def rd (f : Array Nat) (i : Nat) : Nat := f.getD i 0

/-- overwrite byte `i`; no-op past the end (a device write transfers only the bytes that fit) -/
def wr (f : Array Nat) (i v : Nat) : Array Nat := f.setIfInBounds i v

def rd16 (f : Array Nat) (o : Nat) : Nat := rd f o + 256 * rd f (o + 1)

def rd32 (f : Array Nat) (o : Nat) : Nat :=
  rd f o + 256 * rd f (o + 1) + 65536 * rd f (o + 2) + 16777216 * rd f (o + 3)

def wr16 (f : Array Nat) (o v : Nat) : Array Nat :=
  wr (wr f o (v % 256)) (o + 1) (v / 256 % 256)

def wr32 (f : Array Nat) (o v : Nat) : Array Nat :=
  wr (wr (wr (wr f o (v % 256)) (o + 1) (v / 256 % 256)) (o + 2) (v / 65536 % 256)) (o + 3) (v / 16777216 % 256)

/-- 2^32 -/
def u32Lim : Nat := 4294967296

/-- byte offset of entry `c` (`fat_offset`) -/
def off : FatType → Nat → Nat
  | .fat12, c => c + c / 2
  | .fat16, c => c * 2
  | .fat32, c => c * 4

/-- number of bytes read/written for one entry -/
def width : FatType → Nat
  | .fat12 => 2
  | .fat16 => 2
  | .fat32 => 4

/-- the entry's bytes lie inside the FAT and the offset computation does not overflow u32 -/
def InRange (ft : FatType) (f : Array Nat) (c : Nat) : Prop :=
  off ft c + width ft ≤ f.size ∧ off ft c < u32Lim

instance (ft : FatType) (f : Array Nat) (c : Nat) : Decidable (InRange ft f c) := by
  unfold InRange; exact inferInstance

/-- FAT32 cluster NUMBERS 0x0FFFFFF7..=0x0FFFFFFF get special treatment in `Fat32::get`/`set` -/
def special32 (c : Nat) : Prop := 0x0FFFFFF7 ≤ c ∧ c ≤ 0x0FFFFFFF

instance (c : Nat) : Decidable (special32 c) := by unfold special32; exact inferInstance

/-! ## get_raw -/

/-- the 12 bits of entry `c` inside the 16-bit word at `c + c/2` -/
def val12 (c packed : Nat) : Nat := if c % 2 = 0 then packed % 4096 else packed / 16

def getRaw12 (f : Array Nat) (c : Nat) : Except Err Nat :=
  if u32Lim ≤ c + c / 2 then .error .panic
  else if f.size < c + c / 2 + 2 then .error .eof
  else .ok (val12 c (rd16 f (c + c / 2)))

def getRaw16 (f : Array Nat) (c : Nat) : Except Err Nat :=
  if u32Lim ≤ c * 2 then .error .panic
  else if f.size < c * 2 + 2 then .error .eof
  else .ok (rd16 f (c * 2))

def getRaw32 (f : Array Nat) (c : Nat) : Except Err Nat :=
  if u32Lim ≤ c * 4 then .error .panic
  else if f.size < c * 4 + 4 then .error .eof
  else .ok (rd32 f (c * 4))

def getRaw : FatType → Array Nat → Nat → Except Err Nat
  | .fat12 => getRaw12
  | .fat16 => getRaw16
  | .fat32 => getRaw32

/-! ## get (classification) -/

def classify12 (v : Nat) : FatValue :=
  if v = 0 then .free
  else if v = 0xFF7 then .bad
  else if 0xFF8 ≤ v ∧ v ≤ 0xFFF then .eoc
  else .data v

def classify16 (v : Nat) : FatValue :=
  if v = 0 then .free
  else if v = 0xFFF7 then .bad
  else if 0xFFF8 ≤ v ∧ v ≤ 0xFFFF then .eoc
  else .data v

/-- `v` is the raw value already masked with 0x0FFFFFFF; `c` is the cluster NUMBER being read -/
def classify32 (c v : Nat) : FatValue :=
  if v = 0 then (if special32 c then .bad else .free)
  else if v = 0x0FFFFFF7 then .bad
  else if 0x0FFFFFF8 ≤ v ∧ v ≤ 0x0FFFFFFF then .eoc
  else if special32 c then .bad
  else .data v

/-- classification of a raw (unmasked) entry value -/
def classify : FatType → Nat → Nat → FatValue
  | .fat12, _, v => classify12 v
  | .fat16, _, v => classify16 v
  | .fat32, c, v => classify32 c (v % 268435456)

def get (ft : FatType) (f : Array Nat) (c : Nat) : Except Err FatValue :=
  match getRaw ft f c with
  | .ok v => .ok (classify ft c v)
  | .error e => .error e

/-! ## set_raw / set -/

/-- raw value written for a `FatValue` (before `as u16` truncation / reserved-bit merge) -/
def rawOfValue : FatType → FatValue → Nat
  | _, .free => 0
  | .fat12, .bad => 0xFF7
  | .fat16, .bad => 0xFFF7
  | .fat32, .bad => 0x0FFFFFF7
  | .fat12, .eoc => 0xFFF
  | .fat16, .eoc => 0xFFFF
  | .fat32, .eoc => 0x0FFFFFFF
  | _, .data n => n

/-- `Fat12::set_raw`: new 16-bit word from the old one (`raw_val as u16`, `|`, `<<` on u16) -/
def pack12 (c old raw : Nat) : Nat :=
  if c % 2 = 0 then (old / 4096 * 4096) ||| (raw % 65536)
  else (old % 16) ||| (raw % 65536 * 16 % 65536)

def setRaw12 (f : Array Nat) (c raw : Nat) : Except Err (Array Nat) :=
  if u32Lim ≤ c + c / 2 then .error .panic
  else if f.size < c + c / 2 + 2 then .error .eof           -- the read of the old word fails
  else .ok (wr16 f (c + c / 2) (pack12 c (rd16 f (c + c / 2)) raw))

def setRaw16 (f : Array Nat) (c raw : Nat) : Except Err (Array Nat) :=
  if u32Lim ≤ c * 2 then .error .panic
  else if f.size < c * 2 + 2 then .error .writeZero
  else .ok (wr16 f (c * 2) (raw % 65536))

def setRaw32 (f : Array Nat) (c raw : Nat) : Except Err (Array Nat) :=
  if u32Lim ≤ c * 4 then .error .panic
  else if f.size < c * 4 + 4 then .error .writeZero
  else .ok (wr32 f (c * 4) raw)

def setRaw : FatType → Array Nat → Nat → Nat → Except Err (Array Nat)
  | .fat12 => setRaw12
  | .fat16 => setRaw16
  | .fat32 => setRaw32

/-- `Fat32::set`: read the old reserved bits first, refuse `Free` on a special cluster number, merge -/
def set32 (f : Array Nat) (c : Nat) (v : FatValue) : Except Err (Array Nat) :=
  match getRaw32 f c with
  | .error e => .error e
  | .ok old =>
    if v = .free ∧ special32 c then .error .panic
    else setRaw32 f c (rawOfValue .fat32 v ||| (old / 268435456 * 268435456))

def set : FatType → Array Nat → Nat → FatValue → Except Err (Array Nat)
  | .fat12, f, c, v => setRaw12 f c (rawOfValue .fat12 v)
  | .fat16, f, c, v => setRaw16 f c (rawOfValue .fat16 v)
  | .fat32, f, c, v => set32 f c v

/-- the bytes after a `set` call, successful or not: only a FAT16 write that straddles the end of the stream
    modifies bytes before failing (FAT12/FAT32 read the old word first and fail there) -/
def setAfter (ft : FatType) (f : Array Nat) (c : Nat) (v : FatValue) : Array Nat :=
  match set ft f c v with
  | .ok f' => f'
  | .error _ =>
    if ft = .fat16 ∧ c * 2 < u32Lim then wr16 f (c * 2) (rawOfValue .fat16 v % 65536) else f

/-- a value that `set` stores losslessly, i.e. `get` reads it back as the same `FatValue` -/
def Representable : FatType → FatValue → Prop
  | .fat12, .data n => 0 < n ∧ n < 0xFF7
  | .fat16, .data n => 0 < n ∧ n < 0xFFF7
  | .fat32, .data n => 0 < n ∧ n < 0x0FFFFFF7
  | _, _ => True

instance (ft : FatType) (v : FatValue) : Decidable (Representable ft v) := by
  cases ft <;> cases v <;> unfold Representable <;> exact inferInstance

/-- first raw value that does not fit the entry's value field (12 / 16 / 28 bits) -/
def valLimit : FatType → Nat
  | .fat12 => 4096
  | .fat16 => 65536
  | .fat32 => 268435456

/-- the raw value of `v` fits the entry's value field, so writing it cannot spill into a neighbour's nibble (FAT12)
    or into the reserved bits (FAT32) -/
def FitsWidth (ft : FatType) (v : FatValue) : Prop := rawOfValue ft v < valLimit ft

instance (ft : FatType) (v : FatValue) : Decidable (FitsWidth ft v) := by
  unfold FitsWidth; exact inferInstance

/-- FAT32: the reserved high nibble of a raw entry, in place; 0 for the other widths -/
def topBits : FatType → Nat → Nat
  | .fat32, raw => raw / 268435456 * 268435456
  | _, _ => 0

/-- all bytes are bytes -/
def WfBytes (f : Array Nat) : Prop := ∀ i, rd f i < 256

end FatVerif.Fat
