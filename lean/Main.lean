import FatVerif.Model.PureMain
/-! Driver `fatmodel`: `fatmodel pure` (probe lines) | `fatmodel hist …` (operation histories). -/
def main (args : List String) : IO UInt32 := do
  match args with
  | "pure" :: _ => FatVerif.PureMain.run
  | _ =>
    IO.eprintln "usage: fatmodel pure | fatmodel hist --prop Cxx"
    return 2
