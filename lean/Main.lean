import FatVerif.Model.PureMain
import FatVerif.Model.HistMain
import FatVerif.Model.Oracles
/-! Driver `fatmodel`: `fatmodel pure` (probe lines) | `fatmodel hist --prop Cxx --proj <api|image|writes|calls>`. -/
def main (args : List String) : IO UInt32 := do
  match args with
  | "pure" :: _ => FatVerif.PureMain.run
  | "hist" :: rest => FatVerif.HistMain.run rest FatVerif.Oracles.oracle
  | _ =>
    IO.eprintln "usage: fatmodel pure | fatmodel hist --prop Cxx --proj <api|image|writes|calls> [--upper file]"
    return 2
