import FatVerif.Model.Util
def main : IO Unit := IO.println "stub"
