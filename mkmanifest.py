#!/usr/bin/env python3
"""Regenerates MANIFEST.json from checks_config.py (claimed properties) and properties.jsonl (everything else goes
under not_applicable with the reason given in NOT_CLAIMED or a default)."""
import json, subprocess, sys, os
ROOT = os.path.dirname(os.path.abspath(__file__))
sys.path.insert(0, ROOT)
from checks_config import PROPS

NOT_CLAIMED = {}
props = [json.loads(l) for l in open(os.path.join(ROOT, "properties.jsonl"))]
hooks = subprocess.run(["git", "-C", "/repo", "log", "--format=%h %s"], capture_output=True, text=True).stdout.splitlines()
hook_commits = [l.split()[0] for l in hooks if "verif hook" in l]
man = {
    "version": 1,
    "setup_cmd": "cd /verif && ./check setup",
    "hooks": {
        "guard": "--cfg fatfs_verif",
        "enable": "RUSTFLAGS=\"--cfg fatfs_verif\" (set in /verif/harness/.cargo/config.toml; the harness crate has a path dependency on /repo)",
        "baseline_off_cmd": "cd /repo && cargo test --workspace --no-fail-fast --offline",
        "source_commits": hook_commits,
        "add_only": True,
    },
    "engines": [
        {"name": "lean-proofs", "path": "/verif/lean", "serves_properties": sorted(PROPS),
         "kind_free_text": "Lean 4 model of the library (FatVerif/Model), executable specifications (FatVerif/Spec), proofs (FatVerif/Proofs) and per-property theorems (FatVerif/Props)"},
        {"name": "correspondence", "path": "/verif/harness", "serves_properties": sorted(PROPS),
         "kind_free_text": "Rust harness running the real fatfs (built from /repo's working tree with --cfg fatfs_verif) piped into the compiled Lean driver `fatmodel` (differential check + executable-specification oracles)"},
    ],
    "checks": [],
    "not_applicable": [],
    "notes": "Technique: machine-checked proof in Lean 4 of theorems about an executable model, tied to /repo by a correspondence check on every run (see DESIGN.md §0-§5).",
}
for p in props:
    pid = p["id"]
    if pid in PROPS:
        c = PROPS[pid]
        man["checks"].append({
            "property_id": pid,
            "quick_cmd": f"cd /verif && ./check {pid} --tier quick",
            "thorough_cmd": f"cd /verif && ./check {pid} --tier thorough",
            "evidence_file": f"/verif/evidence/{pid}.json",
            "replay_cmd_template": f"cd /verif && ./check {pid} --replay {{path}}",
            "engine": "lean-proofs",
            "level_claimed": {"category": "proof", "text": c["text"], "design_ref": c.get("design_ref", "DESIGN.md §6")},
            "level_note": c["note"] + " | Trusted base: Lean kernel; axioms propext/Classical.choice/Quot.sound only; hand-written model tied to the code by the differential correspondence run; harness + orchestrator.",
            "technique": c["technique"],
        })
    else:
        man["not_applicable"].append({"property_id": pid, "reason": NOT_CLAIMED.get(pid, "not claimed yet: model and theorems for this property are under construction (see DESIGN.md §6)")})
json.dump(man, open(os.path.join(ROOT, "MANIFEST.json"), "w"), indent=1)
print("claimed:", [c["property_id"] for c in man["checks"]])
